#!/usr/bin/env python3
"""check.py <PROPERTY> [--tier quick|thorough] [--replay FILE] [--relock]

Verdict logic (DESIGN.md section 0):
  1. proofs: full make of the Coq development (Extracted.v regenerated from /repo first),
     Props/<id>.v recompiled, Print Assumptions within the allowed list, no forbidden vernacular,
     statement lock unchanged;
  2. correspondence: implementation observable == model observable on every case of this run;
  3. judge: the property's specification evaluated on the implementation's own observables;
  4. anything broken -> KNOWN-FINDING lines for listed findings, otherwise
     `VIOLATION property=<id> replay=<file>` (suffix no-failing-input-found when 1 or 2 broke but
     no concrete failing input was found).
"""
import argparse
import importlib
import json
import os
import sys
import time

sys.path.insert(0, os.path.dirname(os.path.abspath(__file__)))
import common as C  # noqa: E402


def load_prop(pid):
    return importlib.import_module("props." + pid.lower()).PROP


def run_parts(prop, parts):
    """Returns per-part results: list of dict(part, impl, model, judge, mismatches, judgefails)."""
    results = []
    for part in parts:
        t0 = time.time()
        cases = part["cases"]
        impl = C.run_harness(part["harness"], cases, env=part.get("env"), exe=part.get("exe"), timeout=part.get("timeout", 240), chunk=part.get("chunk"))
        mj = C.run_driver(part["driver"], cases, impl) if part.get("driver") else [("", "-")] * len(cases)
        cmp_ = part.get("compare") or (lambda c, i, m: i == m)
        mism, jf = [], []
        for k, c in enumerate(cases):
            m, j = mj[k]
            if part.get("driver") and not cmp_(c, impl[k], m):
                mism.append(k)
            if (j.startswith("bad") and not part.get("ignore_judge")) or impl[k].startswith(("CRASH", "TIMEOUT", "PANIC")):
                jf.append(k)
            elif part.get("impl_ok") and not part["impl_ok"](c, impl[k]):
                jf.append(k)
        results.append({"part": part, "impl": impl, "mj": mj, "mism": mism, "jf": jf, "wall": time.time() - t0})
    return results


def safe_describe(prop, u):
    try:
        return prop.describe(u["part"], u["case"]) if hasattr(prop, "describe") else None
    except Exception:
        return None


def main():
    ap = argparse.ArgumentParser()
    ap.add_argument("prop")
    ap.add_argument("--tier", default=os.environ.get("VERIF_TIER", "quick"))
    ap.add_argument("--replay")
    ap.add_argument("--relock", action="store_true")
    ap.add_argument("--no-build", action="store_true")
    a = ap.parse_args()
    if a.relock:
        print(json.dumps(C.relock(), indent=1))
        return 0
    pid = a.prop.upper()
    tier = a.tier if a.tier in ("quick", "thorough") else "quick"
    seed = int(os.environ.get("VERIF_SEED", "1") or "1")
    t0 = time.time()
    prop = load_prop(pid)

    # ---- 1. build + proofs
    b = C.build_all(race=getattr(prop, "needs_race", False)) if not a.no_build else None
    proof_problems = []
    pf = C.check_props_file(pid)
    if b is not None:
        if not b.coq_ok:
            proof_problems.append("coq build failed: " + ", ".join(b.failed_files or ["see log"]))
        if b.forbidden:
            proof_problems.append("forbidden vernacular: " + "; ".join(b.forbidden[:5]))
        if not b.harness_ok:
            print(b.harness_log[-3000:])
            print("harness build failed (does /repo compile?)")
            path = C.write_replay(pid, {"kind": "harness-build-failed", "log": b.harness_log[-3000:]})
            print("VIOLATION property=%s replay=%s no-failing-input-found" % (pid, path))
            return 1
        if not b.driver_ok:
            proof_problems.append("model driver could not be built")
    if not pf["compiled"]:
        proof_problems.append("Props/%s.v does not compile: %s" % (pid, pf["log"][-1500:]))
    if pf["bad_axioms"]:
        proof_problems.append("assumptions outside the allowed list: " + "; ".join(pf["bad_axioms"]))
    if pf.get("unprinted"):
        proof_problems.append("theorems without Print Assumptions: " + ", ".join(pf["unprinted"]))
    ok, why = C.props_lock_ok(pid)
    if not ok:
        proof_problems.append("statement lock mismatch (%s)" % why)
    chk_summary = None
    if tier == "thorough" and b is not None and b.coq_ok:
        okc, chk_summary = C.coqchk_all()
        if not okc:
            proof_problems.append("coqchk: " + chk_summary)
    obligations = len(pf["theorems"])
    discharged = obligations if (pf["compiled"] and not pf["bad_axioms"] and (b is None or b.coq_ok)) else 0

    # ---- replay mode
    if a.replay:
        payload = json.load(open(a.replay))
        return prop.replay(payload, C)

    # ---- 2./3. correspondence + judge
    parts = prop.parts(seed, tier, C)
    results = run_parts(prop, parts) if (b is None or b.driver_ok) else []
    n_eval = sum(len(r["part"]["cases"]) for r in results)
    distinct = set()
    for r in results:
        nt = r["part"].get("nontrivial") or (lambda c: True)
        for c in r["part"]["cases"]:
            if nt(c):
                distinct.add((r["part"]["name"], c))
    known_printed = {}
    unknown = []
    findings = C.load_findings(pid)
    for r in results:
        part = r["part"]
        for k in sorted(set(r["mism"]) | set(r["jf"])):
            case, impl, (m, j) = part["cases"][k], r["impl"][k], r["mj"][k]
            kind = ("judge" if k in r["jf"] else "") + ("+corr" if k in r["mism"] else "")
            try:
                fid = prop.classify(part, case, impl, m, j, findings) if findings else None
            except Exception:          # a classification hook must never turn a divergence into a crash
                fid = None
            if fid is not None:
                known_printed.setdefault(fid, 0)
                known_printed[fid] += 1
            else:
                unknown.append({"part": part["name"], "case": case, "impl": impl, "model": m, "judge": j, "kind": kind,
                                "failing_input": k in r["jf"]})
    for f in findings:
        if f.get("status") == "open" and f["id"] in known_printed:
            print("KNOWN-FINDING: property=%s %s (%d cases this run)" % (pid, f["what"], known_printed[f["id"]]))

    # ---- 4. verdict
    rc = 0
    violations = 0
    if unknown:
        violations = len(unknown)
        # prefer a concrete failing input (judge failed) and shrink it
        unknown.sort(key=lambda u: (not u["failing_input"], len(u["case"])))
        if not unknown[0]["failing_input"] and hasattr(prop, "search"):
            # proof/correspondence broke without a judged failure: look for a concrete failing input near the divergences
            try:
                w = prop.search(unknown, C)
            except Exception as e:
                w = None
                print("  search for a failing input raised %r" % (e,))
            if w:
                unknown.insert(0, dict(w, failing_input=True))
        u = unknown[0]
        if hasattr(prop, "shrink") and not os.environ.get("VERIF_NO_SHRINK"):
            try:
                u = prop.shrink(u, C) or u
            except Exception as e:  # shrinking is best effort
                u["shrink_error"] = repr(e)
        payload = dict(u, property=pid, seed=seed, tier=tier, proof_problems=proof_problems,
                       describe=safe_describe(prop, u),
                       others=len(unknown) - 1,
                       replay_cmd="python3 tools/check.py %s --replay <this file>" % pid)
        path = C.write_replay(pid, payload)
        print("  %s: case=%s" % (u["kind"], payload.get("describe") or u["case"][:200]))
        print("  impl =%s" % u["impl"][:300])
        print("  model=%s" % u["model"][:300])
        print("  judge=%s  (%d unlisted failing/diverging cases in total)" % (u["judge"], len(unknown)))
        suffix = "" if u["failing_input"] else " no-failing-input-found"
        print("VIOLATION property=%s replay=%s%s" % (pid, path, suffix))
        rc = 1
    elif proof_problems:
        violations = 1
        payload = {"property": pid, "kind": "proof-obligation-broken", "problems": proof_problems,
                   "theorems": pf["theorems"], "failed_files": b.failed_files if b else [],
                   "coq_log_tail": (b.coq_log[-3000:] if b else "")}
        path = C.write_replay(pid, payload)
        for p in proof_problems:
            print("  proof problem: " + p[:1500])
        print("VIOLATION property=%s replay=%s no-failing-input-found" % (pid, path))
        rc = 1

    samples = []
    for r in results:
        cs = r["part"]["cases"]
        for k in ([0, len(cs) // 2, len(cs) - 1] if cs else []):
            d = prop.describe(r["part"]["name"], cs[k]) if hasattr(prop, "describe") else cs[k]
            samples.append({"part": r["part"]["name"], "case": d, "impl": r["impl"][k][:200]})
    coverage = {
        "obligations": max(obligations, 1), "discharged": discharged,
        "checker_cmd": "make -f Makefile.coq -j%d (full .vo build in /verif/coq) && coqc theories/Props/%s.v" % (C.NCPU, pid),
        "trusted_base": C.TRUSTED_BASE + getattr(prop, "trusted_extra", []),
        "theorems": pf["theorems"], "print_assumptions": pf["axioms"],
        "evaluations": n_eval, "distinct_nontrivial": len(distinct),
        "rule": prop.rule, "samples": samples[:12],
        "traces_validated_against_impl": n_eval,
        "exhaustive": bool(getattr(prop, "exhaustive", False)),
        "parts": [{"name": r["part"]["name"], "cases": len(r["part"]["cases"]), "mismatches": len(r["mism"]),
                   "judge_failures": len(r["jf"]), "wall_s": round(r["wall"], 2),
                   "distribution": r["part"].get("distribution")} for r in results],
        "known_findings_printed": known_printed,
        "proof_problems": proof_problems,
        "coqchk": chk_summary,
        "build_wall_s": round(b.wall, 2) if b else None,
    }
    C.write_evidence(pid, tier, seed, coverage, time.time() - t0, violations, getattr(prop, "assumptions", []),
                     level="proof" if obligations > 0 else "exploration")
    if rc == 0:
        print("OK property=%s tier=%s theorems=%d/%d cases=%d distinct_nontrivial=%d wall=%.1fs" % (
            pid, tier, discharged, obligations, n_eval, len(distinct), time.time() - t0))
    return rc


if __name__ == "__main__":
    sys.exit(main())
