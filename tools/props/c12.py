"""C12 — pattern.Match against the regex-items model (correspondence) and the extreme-affix specification (judge)."""
import itertools
import random

from common import hx, unhx

PSYM = [b"a", b"b", b"*", b"?", b"[", b"]", b"!", b"^", b"-", b"\\", b".", b"\n"]
SSYM = [b"a", b"b", b"-", b"]", b"[", b".", b"\n"]
MODES = [9, 10, 5, 6]  # Prefix|Smallest, Prefix|Largest, Suffix|Smallest, Suffix|Largest
EXTRA_P = [b"c", b"[:alpha:]", b"[:digit:]", b"[:space:]", b"[:punct:]", b"[:upper:]", b"[:nope:]", b"[:", b":]", "é".encode(), "日".encode(),
           b"+", b"(", b")", b"|", b"{", b"}", b"$", b"/", b" ", b"0", b"9", b"A", b"z", b"\\\\", b"\\*", b"\\?", b"\\[", b"\\]", b"[!", b"[^", b"a-c", b"\xff",
           "\ufffd".encode(), b"\\" + "\ufffd".encode(), b"[\\" + "\ufffd".encode() + b"]", b"\\" + "é".encode(), b"\\{", b"\\}", b"{2}", b"{1,}", b"\\+", b"\\|", b"\\(", b"\\)"]
EXTRA_S = ["\ufffd".encode(), b"}", b"c", "é".encode(), "日".encode(), b"+", b"(", b")", b"|", b"{", b"$", b"\\", b"*", b"?", b" ", b"0", b"9", b"A", b"z", b"!", b"^", b"\xff", b":"]


def mk(pats, mode, s):
    return "%s\t%d\t%s" % (",".join(hx(p) for p in pats) if pats else "-", mode, hx(s))


def words(alpha, maxlen):
    for L in range(maxlen + 1):
        for t in itertools.product(alpha, repeat=L):
            yield b"".join(t)


class P:
    id = "C12"
    exhaustive = True
    rule = ("exhaustive: all patterns of <= P symbols over {a b * ? [ ] ! ^ - \\ . NL} x all subjects of <= S symbols over {a b - ] [ . NL} "
            "x the four modes (quick P=3,S=2; thorough P=4,S=3 plus P=5 sampled); random longer patterns with classes, ranges, named classes, "
            "multi-byte runes, regex metacharacters, invalid bytes; multi-pattern cases; other mode bit combinations. "
            "Non-trivial = the pattern contains at least one of * ? [ \\ and the case is distinct")
    assumptions = ["Go's regexp package (syntax of the emitted subset, leftmost-first matching) is modelled, not verified",
                   "patterns containing collating symbols [.x.] or equivalence classes [=x=] inside brackets are outside the modelled subset and skipped"]
    trusted_extra = ["model of Go regexp (class parser + leftmost-first priorities) in Pattern/Regex.v, PCompile.v; hook pattern.VerifCompile"]

    def parts(self, seed, tier, C):
        rnd = random.Random(seed)
        P_, S_ = (3, 2) if tier == "quick" else (4, 3)
        subs = list(words(SSYM, S_))
        cases = [mk([p], m, s) for p in words(PSYM, P_) for s in subs for m in MODES]
        # the empty list of patterns: no pattern matches
        cases += [mk([], m, s) for s in subs[:40] for m in list(MODES) + [0, 15]]
        nex = len(cases)
        rc = []
        nrand = 40000 if tier == "quick" else 600000
        for _ in range(nrand):
            k = rnd.random()
            alpha = PSYM + EXTRA_P if k < 0.7 else PSYM
            p = b"".join(rnd.choice(alpha) for _ in range(rnd.randint(1, 9)))
            salpha = SSYM + EXTRA_S
            s = b"".join(rnd.choice(salpha) for _ in range(rnd.randint(0, 8)))
            if rnd.random() < 0.3:
                # derive the subject from the pattern so that matches are frequent
                s = bytes(c for c in p if c not in b"*?[]\\!^") + rnd.choice([b"", b"a", b"\n", b"ab"])
            mode = rnd.choice(MODES) if rnd.random() < 0.9 else rnd.randint(0, 15)
            pats = [p]
            if rnd.random() < 0.1:
                pats.append(b"".join(rnd.choice(PSYM[:5] + [b"c"]) for _ in range(rnd.randint(1, 4))))
            rc.append(mk(pats, mode, s))

        # structured bracket expressions: members are literals, escaped literals, ranges (also with escaped ends), named classes
        bc = []
        LITS = [b"a", b"c", b"e", b"-", b"]", b"[", b"!", b"^", b".", b"0", b"9", b"Z", b"\n", "é".encode(), "\ufffd".encode()]
        nbr = 12000 if tier == "quick" else 150000
        for _ in range(nbr):
            mem = []
            for _ in range(rnd.randint(1, 4)):
                k = rnd.random()
                a, b = rnd.choice(LITS), rnd.choice(LITS)
                esc = lambda x: (b"\\" + x) if rnd.random() < 0.5 else x
                if k < 0.45:
                    mem.append(esc(a))
                elif k < 0.8:
                    mem.append(esc(a) + b"-" + esc(b))
                elif k < 0.87:
                    mem.append(rnd.choice([b"[:alpha:]", b"[:digit:]", b"[:punct:]", b"[:space:]", b"[:alpha:]", b"[:digit:]", b"[:^alpha:]", b"[:^digit:]", b"[:nope:]", b"[:^:]", b"[:word:]"]))
                elif k < 0.93:
                    # collating symbols and equivalence classes: a single character stands for itself (also as a range end),
                    # anything else is rejected; their text never reaches the regular expression unescaped
                    x = rnd.choice([a, a, b"]", b"-", b".", b"=", b")|(", b"a+", b"", b"ab", "\u00e9".encode(), b"\xff", "\ufffd".encode()])
                    o, c_ = rnd.choice([(b"[.", b".]"), (b"[=", b"=]")])
                    m_ = o + x + c_
                    if rnd.random() < 0.3:
                        m_ = m_ + b"-" + esc(b)
                    mem.append(m_)
                else:
                    mem.append(esc(a) + b"\\-" + esc(b))
            neg = rnd.choice([b"", b"", b"!", b"^"])
            pre = rnd.choice([b"", b"", b"*", b"?", b"a", b"\\["])
            post = rnd.choice([b"", b"", b"*", b"?", b"c", b"]"])
            p = pre + b"[" + neg + b"".join(mem) + b"]" + post
            lits = sorted(set(c for c in p if c not in b"*?[]\\!^:"))
            chars = set(lits) | {0x2d, 0x62, 0x5d}
            for x, y in zip(lits, lits[1:]):
                chars.add((x + y) // 2)
            chars = sorted(chars)
            for _ in range(3):
                s_ = bytes(rnd.choice(chars) for _ in range(rnd.randint(0, 3)))
                bc.append(mk([p], rnd.choice(MODES), s_))

        # lists of several patterns, empty patterns at every place: the list matches what its alternatives match
        mc = []
        SHORT = [b"", b"", b"a", b"b", b"*", b"?", b"\\*", b"[ab]", b"a*", b"ab", b"[!a]", b"\\", b"[", b"\n"]
        for n in (2, 3):
            for t in itertools.product(SHORT[1:] if n == 2 else SHORT[1:8], repeat=n):
                for s in (b"", b"a", b"b", b"ab", b"ba", b"*", b"\n"):
                    mc.append(mk(list(t), rnd.choice(MODES), s))
        for _ in range(3000 if tier == "quick" else 60000):
            t = [rnd.choice(SHORT) for _ in range(rnd.randint(2, 5))]
            mc.append(mk(t, rnd.choice(MODES) if rnd.random() < 0.9 else rnd.randint(0, 15), rnd.choice([b"", b"a", b"b", b"ab", b"ba", b"aab", b"*", b"\n"])))

        # Match is a function of its arguments: a list of patterns and the single pattern spelled like its |-join, one after the other
        # in the same process (the cases of a part run in order within a chunk), in both orders
        for x_, y_ in ((b"a", b"b"), (b"x", b"y"), (b"p\\", b"q"), (b"*a", b"b?"), (b"[ab]", b"c"), (b"", b"a")):
            for mode_ in MODES:
                for s_ in (x_, y_, x_ + b"|" + y_, b"b", b"q", b""):
                    trio = [mk([x_, y_], mode_, s_), mk([x_ + b"|" + y_], mode_, s_), mk([x_, y_], mode_, s_)]
                    mc += trio + trio[1:]

        def cmp(c, i, m):
            return "unmodelled" in m or i == m

        def nontrivial(c):
            if c.startswith("-\t"):
                return True
            p = unhx(c.split("\t")[0].split(",")[0])
            return any(x in p for x in b"*?[\\")
        return [{"name": "exhaustive", "harness": "c12", "driver": "c12", "cases": cases, "compare": cmp, "nontrivial": nontrivial,
                 "distribution": {"patterns_le": P_, "subjects_le": S_, "modes": 4, "cases": nex}},
                {"name": "random", "harness": "c12", "driver": "c12", "cases": rc, "compare": cmp, "nontrivial": nontrivial,
                 "distribution": {"cases": nrand}},
                {"name": "pattern-lists", "harness": "c12", "driver": "c12", "cases": mc, "compare": cmp, "nontrivial": lambda c: True,
                 "distribution": {"cases": len(mc), "shape": "2..5 patterns drawn from short patterns including the empty one, at every place of the list"}},
                {"name": "brackets", "harness": "c12", "driver": "c12", "cases": bc, "compare": cmp, "nontrivial": nontrivial,
                 "distribution": {"cases": len(bc), "shape": "prefix [ neg? members{1..4} ] suffix; members: literal/escaped/range/escaped-dash/named class"}}]

    def describe(self, part, case):
        f = case.split("\t")
        return "Match(%r, mode=%s, %r)" % ([] if f[0] == "-" else [unhx(x) for x in f[0].split(",")], f[1], unhx(f[2]))

    def classify(self, part, case, impl, model, judge, findings):
        return None

    def search(self, unknown, C):
        """the compiled expressions differ: probe the diverging patterns with subjects built from their own characters"""
        seen = set()
        for u in unknown[:400]:
            pats = u["case"].split("\t")[0]
            if pats in seen:
                continue
            seen.add(pats)
            if pats == "-":
                continue
            p = unhx(pats.split(",")[0])
            lits = sorted(set(c for c in p if c not in b"*?[]\\!^"))
            chars = set(lits) | {0x2d, 0x61}
            for x, y in zip(lits, lits[1:]):
                chars.add((x + y) // 2)
            alpha = [bytes([c]) for c in sorted(chars)][:7]
            cases = [mk([unhx(q) for q in pats.split(",")], m, s) for s in words(alpha, 3) for m in MODES]
            impl = C.run_harness("c12", cases)
            mj = C.run_driver("c12", cases, impl)
            for c, i, (m, j) in zip(cases, impl, mj):
                if j.startswith("bad"):
                    return {"part": "search", "case": c, "impl": i, "model": m, "judge": j, "kind": "judge(search)"}
        return None

    def replay(self, payload, C):
        c = payload["case"]
        i = C.run_harness("c12", [c])[0]
        m, j = C.run_driver("c12", [c], [i])[0]
        print("case :", self.describe(None, c))
        print("impl :", i)
        print("model:", m)
        print("judge:", j)
        if ("unmodelled" not in m and i != m) or j.startswith("bad"):
            print("VIOLATION property=C12 replay=(replayed)")
            return 1
        print("replay: property holds on this case now")
        return 0


PROP = P()
