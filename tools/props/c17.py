"""C17 — alias substitution equals textual replacement at command position and terminates (harness handler alias).
One command structure is rendered twice from the same random stream: folded (alias names at command position) and unfolded (the
values spliced in by the reference rule: repeatedly, a name never expanded inside its own expansion, the word after a blank-terminated
value examined too); parsing the folded text with the table must give the skeleton of the unfolded text parsed without aliases."""
import random

from common import hx, unhx

TABLE = {
    "ll": "ls -l", "e": "echo", "a1": "a2 x", "a2": "echo y", "c1": "c2", "c2": "c1 z", "ls": "ls -F", "nb": "nice ", "nb2": "nb nb3 ", "nb3": "n3",
    "v": "X=1 cmd", "r": "cmd >f", "q": "echo 'q w'", "sub": "echo $(date) `d`", "self": "self", "t": "\ttab\t", "nl": "multi", "dd": "d1 d1", "d1": "D",
    "pip": "p1 | p2", "and": "t1 && t2", "sc": "s1; s2", "grp": "{ g1; }", "nn": "n1\nn2",
    "xn": "nb", "xxn": "xn", "nx": "xn nb3",
    "cy": "echo $(cy)", "cb": "echo `cb2`", "cb2": "e $(cb)",
}
PLAIN = ["cmd", "foo", "bar", "x1"]


def trim_value(val):
    """the value without its trailing blanks; a blank quoted by a backslash belongs to the value"""
    t = val.rstrip(" \t")
    if (len(t) - len(t.rstrip("\\"))) % 2 == 1 and len(t) < len(val):
        t = val[:len(t) + 1]
    return t


def expand(name, active=()):
    """text that replaces alias [name] at command position, and whether the following word is examined too"""
    val = TABLE[name]
    body = trim_value(val)
    blank = len(body) < len(val)
    # the first word of the value is at command position again
    parts = body.split(" ", 1)
    first = parts[0].lstrip("\t")
    lead = parts[0][: len(parts[0]) - len(first)]
    rest = (" " + parts[1]) if len(parts) > 1 else ""
    if first in TABLE and first not in active + (name,):
        t, b2 = expand(first, active + (name,))
        if b2 and rest:
            # the word after a blank-terminated inner alias is examined too
            w = rest[1:].split(" ", 1)
            if w[0] in TABLE and w[0] not in active + (name,):
                t2, _ = expand(w[0], active + (name,))
                rest = " " + t2 + ((" " + w[1]) if len(w) > 1 else "")
        elif b2 and not rest:
            blank = True          # the replacing text ends in the blank of the inner value
        body = lead + t + rest
    return body + " ", blank


class AGen:
    def __init__(self, rnd, folded):
        self.r = rnd
        self.folded = folded

    def cmdword(self):
        r = self.r
        if r.random() < 0.55:
            n = r.choice(list(TABLE))
            if n in ("pip", "and", "sc", "grp", "nn") and r.random() < 0.6:
                n = r.choice(["ll", "e", "a1", "c1", "ls", "nb", "nb2", "v", "r", "q", "sub", "self", "t", "dd", "xn", "xxn", "nx"])
            if self.folded:
                return n, TABLE[n].endswith((" ", "\t"))
            t, b = expand(n)
            return t, b
        return r.choice(PLAIN), False

    def arg(self, examine):
        r = self.r
        k = r.random()
        if k < 0.3:
            n = r.choice(["ll", "e", "ls", "nb", "c1", "nb3"])    # alias names in argument position
            if examine and not self.folded:
                t, b = expand(n)
                return t, b
            return n, (TABLE[n].endswith((" ", "\t")) if examine else False)
        if k < 0.4:
            return r.choice(["\\ll", "'e'", '"ls"', "l\\l", "e=1", "$ll"]), False
        return r.choice(["-a", "file", "$x", "'a b'", "1"]), False

    def simple(self):
        r = self.r
        parts = []
        if r.random() < 0.15:
            parts.append(r.choice(["X=1", "ll=2", "e=$e"]))     # assignment words are never replaced
        w, examine = self.cmdword()
        parts.append(w)
        for _ in range(r.choice([0, 1, 2, 3])):
            a, examine = self.arg(examine)
            parts.append(a)
        if r.random() < 0.15:
            parts.append(r.choice([">out", "2>&1", "<in"]))
        return " ".join(parts)

    def cmd(self, d):
        r = self.r
        k = r.random()
        if d <= 0 or k < 0.45:
            return self.simple()
        d -= 1
        if k < 0.55:
            return self.cmd(d) + " | " + self.cmd(d)
        if k < 0.65:
            return self.cmd(d) + r.choice([" && ", " || "]) + self.cmd(d)
        if k < 0.72:
            return "( " + self.seq(d) + " )"
        if k < 0.79:
            return "{ " + self.seq(d) + "; }"
        if k < 0.87:
            return "if " + self.seq(d) + "; then " + self.seq(d) + "; fi"
        if k < 0.93:
            return "while " + self.seq(d) + "; do " + self.seq(d) + "; done"
        return "for i in ll e; do " + self.seq(d) + "; done"

    def seq(self, d):
        s = self.cmd(d)
        if self.r.random() < 0.3:
            s += r_sep(self.r) + self.cmd(d)
        return s


def r_sep(r):
    return r.choice(["; ", " ;", "\n"])


class P:
    id = "C17"
    rule = ("command structures (simple commands, pipelines, and-or lists, subshells, brace groups, if / while / for) whose command-position words are "
            "drawn from a 24-entry alias table (multi-token values, chains, 2-cycles, self reference, trailing blanks incl. chained ones, assignments, "
            "redirections, quotes, command substitutions, operators, brace group, embedded newline, leading/trailing tabs); alias names also appear as "
            "arguments, quoted, escaped, as assignment words and after blank-terminated aliases. Non-trivial = at least one alias at command position")
    assumptions = ["the reference replacement is the generator's own implementation of the rule in the property text",
                   "termination is observed (watchdog) for every table incl. cycles; it is proved for the alias-stack model only"]
    exhaustive = False

    def parts(self, seed, tier, C):
        rnd = random.Random(seed)
        n = 6000 if tier == "quick" else 100000
        al = ",".join("%s=%s" % (hx(k), hx(v)) for k, v in TABLE.items())
        cases = []
        for _ in range(n):
            s = rnd.getrandbits(48)
            d = rnd.choice([0, 1, 1, 2])
            folded = AGen(random.Random(s), True).seq(d) + "\n"
            unfolded = AGen(random.Random(s), False).seq(d) + "\n"
            cases.append("%s\t%s\t%s" % (hx(folded), al, hx(unfolded)))

        # the word after a blank-terminated value is examined wherever that value ends: word lists of for, after ! and |, inside
        # compound commands, chains of blank-terminated values
        fixed = []
        for table, pairs in (
            ({"F": "for x in ", "A": "a b", "B": "b c", "AB": "a ", "F1": "for x in 1 "},
             [("F A; do echo $x; done", "for x in a b; do echo $x; done"), ("F1 A; do :; done", "for x in 1 a b; do :; done"),
              ("F AB B; do :; done", "for x in a b c; do :; done"), ("F A B; do :; done", "for x in a b B; do :; done"),
              ("{ F A; do :; done; }", "{ for x in a b; do :; done; }"), ("F1 AB A; do F A; do :; done; done", "for x in 1 a a b; do for x in a b; do :; done; done")]),
            ({"N": "nice ", "L": "ls -l", "NN": "N N "},
             [("! N L", "! nice ls -l"), ("x | N L", "x | nice ls -l"), ("{ N L; }", "{ nice ls -l; }"), ("if N L; then N L; fi", "if nice ls -l; then nice ls -l; fi"),
              ("( N L )", "( nice ls -l )"), ("N L && N L || N L", "nice ls -l && nice ls -l || nice ls -l"), ("while N L; do N L; done", "while nice ls -l; do nice ls -l; done"),
              ("NN L", "nice nice ls -l"), ("N N L", "nice nice ls -l"), ("X=1 N L", "X=1 nice ls -l"), (">f N L", ">f nice ls -l"), ("N L L", "nice ls -l L"),
              ("N 'L'", "nice 'L'"), ("N \\L", "nice \\L"), ("f() { N L; }", "f() { nice ls -l; }"), ("case x in x) N L ;; esac", "case x in x) nice ls -l ;; esac")]),
            # a here-document inside an alias value, the alias word in any column (positions stand still inside alias text)
            ({"H": "cat <<E\nbody\nE\n", "HT": "cat <<-E\n\tfoo\n\tE\n", "HX": "cat <<E\n$x `y`\nz\\\nE\nE\n", "H2": "cat <<A <<'B'\n1\nA\n$2\nB\n"},
             [("H", "cat <<E\nbody\nE\n"), (" H", " cat <<E\nbody\nE\n"), ("x=1 H", "x=1 cat <<E\nbody\nE\n"), ("a | H", "a | cat <<E\nbody\nE\n"),
              ("  HT", "  cat <<-E\n\tfoo\n\tE\n"), ("   HX", "   cat <<E\n$x `y`\nz\\\nE\nE\n"), ("{ H }", "{ cat <<E\nbody\nE\n }"), ("\tH2", "\tcat <<A <<'B'\n1\nA\n$2\nB\n"),
              ("if H then :; fi", "if cat <<E\nbody\nE\nthen :; fi")]),
            # text after a here-document inside an alias value, at top level and inside compound commands; the operator in the
            # source and the body in the value; chains; the source going on after the alias
            ({"HA": "cat <<E\nbody\nE\necho after", "HB": "foo\nbody $x\nE\nbar ; baz", "C1": "C2 C3 ", "C2": "cat <<-'E' ", "C3": ">f\n\tbody\n\tE\nif x; then y; fi",
              "HC": "cat <<E\nb\nE\na |"},
             [("HA", "cat <<E\nbody\nE\necho after"), ("cat <<E; HB", "cat <<E; foo\nbody $x\nE\nbar ; baz"), ("C1", "cat <<-'E' >f\n\tbody\n\tE\nif x; then y; fi"),
              ("HA arg\necho last", "cat <<E\nbody\nE\necho after arg\necho last"), ("{ HA\n}", "{ cat <<E\nbody\nE\necho after\n}"),
              ("x | HA y", "x | cat <<E\nbody\nE\necho after y"), ("HC z", "cat <<E\nb\nE\na | z"), ("HA; HA", "cat <<E\nbody\nE\necho after; cat <<E\nbody\nE\necho after"),
              ("( HA )", "( cat <<E\nbody\nE\necho after )"), ("HA && w", "cat <<E\nbody\nE\necho after && w")]),
            # after an assignment or redirection prefix the command name is an ordinary word, also when the alias value begins
            # with a reserved word
            ({"a": "if x", "b": "{ y", "c": "! z", "d": "then", "e": "done q", "k": "a w"},
             [("x=1 a", "x=1 if x"), (">f b", ">f { y"), ("x=1 c", "x=1 ! z"), ("2>&1 d", "2>&1 then"), ("x=1 e r", "x=1 done q r"), ("x=1 k", "x=1 if x w"),
              ("y=2 >g a; z", "y=2 >g if x; z")]),
            # a value that ends in a blank-terminated alias value ends in that blank, whatever the chain's length
            ({"N": "nice ", "L": "ls -l", "X": "N", "Y": "X", "P": "env ", "NT": "nice\t", "XT": "NT", "Q": "P X", "Z": "X "},
             [("X L", "nice ls -l"), ("Y L", "nice ls -l"), ("P X L", "env nice ls -l"), ("{ X L; }", "{ nice ls -l; }"), ("V=1 X L", "V=1 nice ls -l"),
              ("XT L", "nice ls -l"), ("Q L", "env nice ls -l"), ("Z L", "nice ls -l"), ("P Y L L", "env nice ls -l L"), ("a | Y L", "a | nice ls -l"),
              ("X X L", "nice nice ls -l"), ("X Y L", "nice nice ls -l"), ("if X L; then Y L; fi", "if nice ls -l; then nice ls -l; fi")]),
            # a blank quoted by a backslash at the end of a value is part of the value, not a trailing blank
            ({"S": "echo \\ ", "T": "echo \\\t", "U": "echo \\\\ ", "N": "nice \\  ", "L": "ls -l", "B": "echo a\\"},
             [("S tail", "echo \\  tail"), ("T x", "echo \\\t x"), ("U L", "echo \\\\ ls -l"), ("N L", "nice \\  ls -l"), ("S L", "echo \\  L"),
              ("S", "echo \\ "), ("{ S; }", "{ echo \\ ; }"), ("B c", "echo a\\ c")]),
            # the word after a blank-terminated value that ends in for / case is examined too (the loop variable, the word of case)
            ({"f": "for ", "x": "i", "g": "f ", "c": "case ", "w": "v", "L": "a b", "h": "echo hi; for\t"},
             [("f x in a b; do echo $i; done", "for i in a b; do echo $i; done"), ("g x in a; do :; done", "for i in a; do :; done"),
              ("f x; do :; done", "for i; do :; done"), ("{ f x in L; do :; done; }", "{ for i in L; do :; done; }"), ("h x in 1; do :; done", "echo hi; for\ti in 1; do :; done"),
              ("c w in v) :;; esac", "case v in v) :;; esac"), ("f y in a; do :; done", "for y in a; do :; done")]),
            ({"W": "while ", "T": "true", "I": "if ", "TH": "then ", "E": "echo hi"},
             [("W T; do T; done", "while true; do true; done"), ("I T; TH E; fi", "if true; then echo hi; fi"), ("I T; then E; fi", "if true; then echo hi; fi")]),
        ):
            alx = ",".join("%s=%s" % (hx(k), hx(v)) for k, v in table.items())
            for f, u in pairs:
                fixed.append("%s\t%s\t%s" % (hx(f + "\n"), alx, hx(u + "\n")))

        def ok(c, o):
            return o.startswith(("ok", "skip"))
        # the character stream under substitution: reads, unreads and substitutions of the real lexer replayed on the model
        # (Lex/AliasStream.v); folded sources of the generated and fixed cases, each with its table
        stream = []
        for c in fixed + cases[: (1500 if tier == "quick" else 30000)]:
            f_ = c.split("\t")
            stream.append("%s\t%s" % (f_[0], f_[1]))
        return [{"name": "alias-stream-model", "harness": "astream", "driver": "astream", "cases": stream, "compare": lambda c, i, m: True,
                 "impl_ok": lambda c, o: o.startswith("ok "),
                 "nontrivial": lambda c: True, "distribution": {"cases": len(stream)}},
                {"name": "blank-terminated-values-in-every-position", "harness": "alias", "driver": None, "cases": fixed, "impl_ok": ok,
                 "nontrivial": lambda c: True, "distribution": {"cases": len(fixed)}},
                {"name": "folded-vs-unfolded", "harness": "alias", "driver": None, "cases": cases, "impl_ok": ok,
                 "nontrivial": lambda c: c.split("\t")[0] != c.split("\t")[2],
                 "distribution": {"cases": n}}]

    def describe(self, part, case):
        f = case.split("\t")
        if len(f) == 2:
            return "character stream of %r with aliases %s" % (unhx(f[0]).decode(), {unhx(k).decode(): unhx(v).decode() for k, v in (kv.split("=") for kv in f[1].split(",") if kv)})
        return "folded %r vs unfolded %r" % (unhx(f[0]).decode(), unhx(f[2]).decode())

    def classify(self, part, case, impl, model, judge, findings):
        return None

    def replay(self, payload, C):
        c = payload["case"]
        if payload.get("part") == "alias-stream-model":
            i = C.run_harness("astream", [c])[0]
            m, j = C.run_driver("astream", [c], [i])[0]
            print("case :", self.describe("alias-stream-model", c), "\nimpl :", i[:600], "\njudge:", j)
            if j.startswith("bad") or not i.startswith("ok "):
                print("VIOLATION property=C17 replay=(replayed)")
                return 1
            print("replay: property holds on this case now")
            return 0
        o = C.run_harness("alias", [c])[0]
        print("case :", self.describe(None, c))
        print("impl :", o[:600])
        if not o.startswith(("ok", "skip")):
            print("VIOLATION property=C17 replay=(replayed)")
            return 1
        print("replay: property holds on this case now")
        return 0


PROP = P()
