"""C03 — ill-formed programs are rejected with a located syntax error.
Impl-side part: every single-token deletion / insertion / duplication / adjacent swap of generated programs and every short token string:
when ParseCommands reports a syntactic failure it must be a parser.Error carrying the caller's name and a line:column that lies inside
the consumed text and designates the start of a token (not a blank, not past the end).  The acceptance side (no ill-formed program is
accepted) is decided against the Coq grammar model, see the model part."""
import random

from common import hx, unhx
from props import parsegen as G


def fields(out):
    return dict(x.split("=", 1) for x in out.split(" ")[1:]) if out.startswith("ok ") else {}


def located_ok(case, out):
    if not out.startswith("ok "):
        return False
    f = fields(out)
    e = f["E"]
    if e == "nil":
        return True
    if not e.startswith("syn:"):
        return False                      # not a parser.Error although nothing but syntax can fail here
    _, name, line, col, msg = e.split(":")
    if unhx(name) != b"t":
        return False
    src = unhx(case.split("\t")[0]).decode("utf-8", "replace")
    line, col = int(line), int(col)
    lines = src.split("\n")
    if line < 1 or line > len(lines) or col < 1:
        return False
    text = lines[line - 1]
    if col > len(text) + 1:
        return False
    if col > 1 and col <= len(text) and text[col - 1] in " \t":
        return False                      # a position must designate the start of a token or construct
    return True


class P:
    id = "C03"
    rule = ("all single-token deletions, insertions (27 tokens incl. reserved words, operators, quote and expansion openers), duplications and adjacent "
            "swaps of generated programs, truncations at every quarter, 22 ill-formed expansions x 34 contexts (words, quotes, substitutions, here-document bodies alone / after quoted and unquoted here-documents of the same line), and all strings of <= 3 symbols over 22 characters + 13 reserved words. "
            "Non-trivial = the mutant differs from its origin and has >= 2 tokens; distinct mutants counted")
    assumptions = ["sources without aliases and without multi-byte characters in the mutated corpus for the column check (columns count characters)"]
    exhaustive = True

    def parts(self, seed, tier, C):
        rnd = random.Random(seed)
        g = G.Gen(rnd)
        n = 1500 if tier == "quick" else 20000
        progs = [g.program(rnd.choice([1, 2, 2, 3])) for _ in range(n)]
        muts = []
        for p in progs:
            for _ in range(4):
                muts.append(G.mutate_tokens(rnd, p))
            for q in (1, 2, 3):
                muts.append(p[: len(p) * q // 4])
        short = [" ".join(t) for t in __import__("itertools").product(G.ALPHA1 + G.WORDS1, repeat=3)]
        short += list(G.strings_upto(G.ALPHA1, 3))
        cases = [G.pcase(m) for m in muts + short]
        from props import c02
        trunc = [G.pcase(t) for t in G.heredoc_truncations()]
        tpart = {"name": "here-document-truncations", "harness": "parse", "driver": None, "cases": trunc,
                 "impl_ok": lambda c, o: o.startswith("ok ") and fields(o)["E"] != "nil" and located_ok(c, o),
                 "nontrivial": lambda c: True, "distribution": {"cases": len(trunc)}}
        ill = [G.pcase(t) for t in G.illformed_contexts()]
        ipart = {"name": "ill-formed-expansions-in-context", "harness": "parse", "driver": None, "cases": ill,
                 "impl_ok": lambda c, o: o.startswith("ok ") and fields(o)["E"] != "nil" and located_ok(c, o),
                 "nontrivial": lambda c: True, "distribution": {"cases": len(ill)}}
        # with an alias table: an error in the source after an alias word is located where it stands in the source, whatever the
        # alias value held (substitutions read by nested lexers included); an error inside the alias text is located inside the source
        values = ["echo", "echo $(a)", "echo `b`", "echo $((1+2))", "echo \"$(a b)\" ${x:-$(c)}", "echo $(a; b) ", "x=$(a) echo", "echo $(a | b) $(c)",
                  "echo $(a\nb)", "echo \"`a`\" $(( $(b) ))", "B ", "echo '$(' "]
        tmpl = ["N x; @; y", "N x | @| y", "N x @)", "N x; @fi", "N && @&& x", "  N x; @; y", "N; N @)", "N $(c; @; d)", "if N; then @fi",
                "N x; @do", "N <<@< E", "N x; ( @)"]
        bad_values = ["echo $(a; ; b)", "echo $(a", "echo `a", "echo $((1+", "echo ${x", "echo \"$(a", "echo $(a))", "echo $(a) ; ;", "echo $(if)", "echo $(a) \"${y:-$(b\"",
                      "( $(b)", "( $((1))", "{ $(b)", "x $(( $(b) )) (", "( \"$(b)\" $(c)", "if $(b)"]
        al, aexp = [], {}
        for v in values:
            for t in tmpl:
                src = t.replace("@", "") + "\n"
                c_ = G.pcase(src, aliases={"N": v, "B": "echo $(z) "})
                al.append(c_)
                aexp[c_] = (1, t.index("@") + 1)
        # alias values that open a substitution which the source closes: what follows in the source is counted from its first character
        for v, close in (("echo $(a", ")"), ("$(a", ")"), ("echo `a", "`"), ("echo $((1 +", " 2))"), ("echo \"$(a", ")\""), ("echo ${x:-$(a", ")}"),
                         ("echo $(a $(b", "))"), ("B $(a", ")")):
            for mid in (" b", ";b", "\nb", "\nb\n", "", " "):
                if "((" in v and mid.strip() == ";b" or close == "`" and mid == "":
                    continue          # (N` is one word, not the alias name)
                for tail in (" x; @fi", " | @;", " ; @then", " @)", " x &&  @&", "; @}"):
                    t = "N" + mid + close + tail
                    k = t.index("@")
                    src = t.replace("@", "") + "\n"
                    c_ = G.pcase(src, aliases={"N": v, "B": "echo $(z) "})
                    al.append(c_)
                    aexp[c_] = (t[:k].count("\n") + 1, k - (t[:k].rfind("\n") + 1) + 1)
        for v in bad_values:
            for t in ("N", "N x", "  N", "a; N y", "N\n", "if N; then :; fi", "B N"):
                if t == "B N" and v.startswith(("{", "if", "(")):
                    continue          # (as an argument the value is no command)
                for end_ in ("\n", ""):
                    c_ = G.pcase(t.rstrip("\n") + end_, aliases={"N": v, "B": "echo $(z) "})
                    al.append(c_)
                    aexp[c_] = None

        def alias_ok(c, o):
            if not (o.startswith("ok ") and fields(o)["E"].startswith("syn:")):
                return False
            if aexp[c] is None:
                # the error lies in the alias text, which has no place of its own: it is located inside the source line (the
                # point where the alias text stands, directly after the alias word, may be a blank)
                e = fields(o)["E"].split(":")
                src = unhx(c.split("\t")[0]).decode().split("\n")
                return unhx(e[1]) == b"t" and 1 <= int(e[2]) <= len(src) and 1 <= int(e[3]) <= len(src[int(e[2]) - 1]) + 1
            if not located_ok(c, o):
                return False
            e = fields(o)["E"].split(":")
            return (int(e[2]), int(e[3])) == aexp[c]
        apart = {"name": "error-positions-with-aliases", "harness": "parse", "driver": None, "cases": al, "impl_ok": alias_ok,
                 "nontrivial": lambda c: True, "distribution": {"cases": len(al), "alias_values": len(values), "ill_formed_alias_values": len(bad_values)}}
        # an offending token on the line after a comment, at the places where the lexer skips the line break itself; comment texts
        # ending in a backslash (a backslash in a comment is text, never a line continuation)
        cl, cexp = [], {}
        for pre in ("a &&", "a ||", "a |", "case x in", "case x in a)", "case x in a) b;;", "for i;", "f()", "a && b |", "{ a ||"):
            for com in (" c", " c \\", "\\", " a\\\\", ""):
                for bad in (")", ";", "&& x", "| y", ";;"):
                    if bad == ";;" and pre.startswith("case"):
                        continue
                    for shape in (pre + " #" + com + "\n@" + bad + "\nb\n", pre + "\n#" + com + "\n@" + bad + "\nb\n", pre + " #" + com + "\n  # d\\\n\t@" + bad + "\n"):
                        k = shape.index("@")
                        c_ = G.pcase(shape.replace("@", ""))
                        cl.append(c_)
                        cexp[c_] = (shape[:k].count("\n") + 1, k - (shape[:k].rfind("\n") + 1) + 1)

        # an offending newline on an empty line directly after a line continuation (the column of the line before must not leak)
        for shape in ("case x in a\\\n@\n) b ;; esac\n", "case x in abcdefgh\\\n@\n) b ;; esac\n", "case x in a|\\\n@\nb) c ;; esac\n",
                      "case xyz in (\\\n@\na) b ;; esac\n", "case x in a) b ;; cdefg\\\n@\n) d ;; esac\n", "{ case x in a\\\n@\n) b ;; esac; }\n",
                      "case x in a\\\n\\\n@\n) b ;; esac\n", "echo $(case x in abc\\\n@\n) b ;; esac)\n"):
            k = shape.index("@")
            c_ = G.pcase(shape.replace("@", ""))
            cl.append(c_)
            cexp[c_] = (shape[:k].count("\n") + 1, k - (shape[:k].rfind("\n") + 1) + 1)

        def cl_ok(c, o):
            if not (o.startswith("ok ") and fields(o)["E"].startswith("syn:")):
                return False
            e = fields(o)["E"].split(":")
            return (int(e[2]), int(e[3])) == cexp[c]
        cpart = {"name": "offending-token-after-a-comment-at-a-line-break", "harness": "parse", "driver": None, "cases": cl, "impl_ok": cl_ok,
                 "nontrivial": lambda c: True, "distribution": {"cases": len(cl)}}
        return [tpart, ipart, apart, cpart] + c02.token_parts(random.Random(seed + 7), tier, 2000 if tier == "quick" else 30000) + [{"name": "mutants-and-short-strings", "harness": "parse", "driver": None, "cases": cases, "impl_ok": located_ok,
                 "nontrivial": lambda c: len(unhx(c.split("\t")[0]).split()) >= 2,
                 "distribution": {"mutants": len(muts), "short": len(short)}}]

    def describe(self, part, case):
        return G.describe(case)

    def classify(self, part, case, impl, model, judge, findings):
        return None

    def replay(self, payload, C):
        c = payload["case"]
        o = C.run_harness("parse", [c])[0]
        print("case :", G.describe(c))
        print("impl :", o[:400])
        i = C.run_harness("tokens", [c])[0]
        j = C.run_driver("ptok", [c], [i])[0][1]
        print("judge:", j[:400])
        if not located_ok(c, o) or j.startswith("bad"):
            print("VIOLATION property=C03 replay=(replayed)")
            return 1
        print("replay: property holds on this case now")
        return 0


PROP = P()
