"""Shared generators for the shell-parser properties (C01-C10, C15, C17-C19): a small grammar-directed
program generator, token-level mutators and the significant alphabet."""
import itertools
import random

from common import hx, unhx

ALPHA1 = ["a", "=", "1", " ", "\n", ";", "&", "|", "(", ")", "<", ">", "-", "$", "{", "}", '"', "'", "\\", "`", "#", "!"]
WORDS1 = ["if", "then", "fi", "do", "done", "case", "esac", "in", "for", "while", "else", "elif", "until"]


def strings_upto(alpha, n):
    for L in range(n + 1):
        for t in itertools.product(alpha, repeat=L):
            yield "".join(t)


class Gen:
    """Grammar-directed generator of well-formed programs (text).
    Structural choices come from [r]; layout choices (blanks, ';' vs newline, comments, line continuations, blank lines,
    optional blanks around operators) come from [l], so the same structure can be rendered under different layouts."""

    CLOSERS = (")", "}", "fi", "done", "esac")

    def __init__(self, rnd, heredocs=True, multiline=True, layout=None):
        self.r = rnd
        self.l = layout if layout is not None else rnd
        self.heredocs_on = heredocs
        self.multiline = multiline
        self.pending = []   # here-document bodies to emit at the next newline
        self.heredocs = []  # (op, delimiter word as written, body, delimiter line) in source order
        self.comments = []  # comment texts in source order
        self.with_comments = False
        self.rich_layout = False   # extra blanks, tabs, line continuations, blank lines
        self.ml_bodies = True      # here-document bodies may hold expansions that span lines

    # ---- layout
    def B(self):
        """blank(s) between two tokens"""
        if not self.rich_layout:
            return " "
        return self.l.choice([" ", " ", " ", "  ", "\t", " \t ", " \\\n", "\\\n "])

    def O(self):
        """optional blank around an operator"""
        return self.l.choice(["", " "]) if not self.rich_layout else self.l.choice(["", " ", "  ", "\t"])

    def nl(self, own=True):
        """a newline, flushing pending here-documents"""
        c = ""
        if self.with_comments and self.l.random() < 0.3:
            t = self.l.choice([" c", "x y", " if then", " 'q", ' "d', " $(", " é", " a\\", " #", ""])
            self.comments.append(t)
            c = self.l.choice([" #", "\t#"]) + t
        s = c + "\n" + "".join(self.pending)
        self.pending = []
        if self.rich_layout and self.l.random() < 0.15:
            s += self.l.choice(["\n", " \n", "\n\n"])
            if own and self.with_comments and self.l.random() < 0.3:
                self.comments.append(" own line")
                s += "# own line\n"
        return s

    def sep(self, after="", before_reserved=False):
        if (self.multiline and self.l.random() < 0.3) or self.pending:
            return self.nl()
        a = after.rstrip()
        if a.endswith("&") and not a.endswith(("&&", "\\&")):
            return " "
        if before_reserved and a.endswith(self.CLOSERS) and not a.endswith(("))", ";;")) and self.l.random() < 0.5:
            return " "      # a reserved word may follow a compound command's closing token directly
        return self.O() + ";" + self.O().replace("\t", " ") + ("" if self.l.random() < 0.5 else " ")

    # ---- structure
    def name(self):
        return self.r.choice(["x", "y", "foo", "BAR", "_v1", "a1", "é", "日本1"])

    def lit(self):
        return self.r.choice(["a", "b", "echo", "foo", "bar", "x1", "-n", "file.txt", "/bin/ls", "a=b", "1", "é", "in", "do"])

    def word(self, d=2, cmdpos=False):
        r = self.r
        k = r.random()
        if cmdpos:
            return r.choice(["a", "b", "echo", "foo", "cmd", "ls", "x1", "/bin/ls", "é"])
        if k < 0.45 or d <= 0:
            return self.lit()
        if k < 0.52:
            return "'" + r.choice(["", "a b", "$x", '"', "\\", "a\nb", "#c", ";", "`"]) + "'"
        if k < 0.60:
            inner = r.choice(["", "a b", "$x", "${y}", "\\\"", "\\$", "a'b", "$(c)", "`c`", "$((1+2))", "#n", "a\\\nb", "\\\u00e9", "a\\\u65e5b", "\\\u010a"])
            return '"' + inner + '"'
        if k < 0.65:
            return "\\" + r.choice([" ", ";", "a", "$", "\\", "'", '"', "#", "&", "|", "(", "\u00e9", "\u010a"])
        if k < 0.72:
            return "$" + r.choice(["x", "1", "@", "*", "#", "?", "-", "$", "!", "0", "foo"])
        if k < 0.82:
            op = r.choice(["", ":-", "-", ":=", "=", ":?", "?", ":+", "+", "%", "%%", "#", "##"])
            if op == "":
                return "${" + r.choice([self.name(), "#" + self.name(), "1", "@"]) + "}"
            return "${" + self.name() + op + r.choice(["", "w", "$z", "'q'", '"r s"', "a b", "${n:-m}", "*.c"]) + "}"
        if k < 0.88:
            sub = Gen(self.r, heredocs=False, multiline=False, layout=self.l)
            sub.rich_layout = False
            return "$(" + sub.simple(d - 1) + ")"
        if k < 0.92:
            return "`" + r.choice(["a", "a b", "a | b"]) + "`"
        if k < 0.96:
            return "$((" + r.choice(["1+2", "x", " x * 2 ", "$x+1", "(1)", "1<<2", "a?b:c"]) + "))"
        if k < 0.98 and not self.pending and self.multiline:
            # expansions that span several lines
            return r.choice(["$(\n\ta\n\tb c\n)", "`a\nb`", "$((1 +\n2))", '"$(\n\ta\n)"', "$(a\n)", "${x:-$(\n\ta\n)}"])
        return self.lit() + self.word(d - 1)

    def redir(self, d):
        r = self.r
        k = r.random()
        if self.heredocs_on and k < 0.25:
            delim = r.choice(["EOF", "E", "END1"])
            q = r.choice(["", "", "'", "\\"])
            op = r.choice(["<<", "<<-"])
            body = r.choice(["", "line\n", "a $x\n", "\n", "  two\nlines\n", "E2\n", "\tt\n", "$(c)\n", "`c`\n", "a\\\nb\n", "#nc\n", "\\$x \\\\\n", "\\\u00e9 \\\u65e5\n", "a\\\u010ab\n",
                             ] + (["$(\n\techo x\n)\n", "`a\nb`\n", "x $((1 +\n2)) y\n", "$(a; b\n c)\n"] if self.ml_bodies else []))
            if q == "" and r.random() < 0.08:
                # a continued line that spells the delimiter is not the delimiter line
                body = r.choice(["k\\\n", "k \\\n"]) + delim + "\nz\n"
            if op == "<<-":
                body = "".join("\t" + ln + "\n" for ln in body.split("\n")[:-1])
            tab = r.random() < 0.5
            dline = ("\t" if op == "<<-" and tab else "") + delim
            self.pending.append(body + dline + "\n")
            dw = {"": delim, "'": "'" + delim + "'", "\\": "\\" + delim}[q]
            self.heredocs.append((op, dw, body, dline))
            return r.choice(["", "3"]) + op + self.O().replace("\t", " ") + dw
        op = r.choice(["<", ">", ">>", ">|", "<&", ">&", "<>"])
        n = r.choice(["", "", "2", "10"])
        target = r.choice(["f", "/dev/null", "$x", '"a b"', "1", "-"])
        return n + op + self.O().replace("\t", " ") + target

    def simple(self, d):
        r = self.r
        parts = []
        for _ in range(r.choice([0, 0, 0, 1, 2])):
            parts.append(self.name() + "=" + r.choice(["", "1", "$y", "'a b'", '"c"', "a:b"]))
        nargs = r.choice([1, 1, 2, 3, 4]) if not parts or r.random() < 0.7 else 0
        for i in range(nargs):
            parts.append(self.word(d, cmdpos=(i == 0)))
        if r.random() < 0.25:
            parts.insert(r.randint(0, len(parts)), self.redir(d))
        if not parts:
            parts.append("a")
        s = parts[0]
        for p_ in parts[1:]:
            s += self.B() + p_
        return s

    def seq(self, d):
        n = self.r.choice([1, 1, 2])
        s = self.andor(d)
        for _ in range(n - 1):
            s += self.sep(s) + self.andor(d)
        return s

    def body(self, d):
        """compound_list followed by a separator"""
        s = self.seq(d)
        last_line = s.split("\n")[-1]
        simple_tail = (any(ch in last_line for ch in "'\"$`#") or not s.rstrip().endswith(self.CLOSERS)
                       or not getattr(self, "last_compound", False))
        return s + self.sep(s, before_reserved=not simple_tail)

    def brk(self):
        """a linebreak position after an operator (|, &&, ||): optional newline"""
        if self.multiline and not self.pending and self.l.random() < 0.2:
            return self.O().replace("\t", " ") + self.nl(own=False)
        return self.O()

    def andor(self, d):
        s = self.pipeline(d)
        while self.r.random() < 0.2:
            s += self.O() + self.r.choice(["&&", "||"]) + self.brk() + self.pipeline(d)
        if self.r.random() < 0.08:
            s += " &"
        return s

    def pipeline(self, d):
        s = ("! " if self.r.random() < 0.08 else "") + self.command(d)
        while self.r.random() < 0.2:
            s += self.O() + "|" + self.brk() + self.command(d)
        return s

    def kw(self):
        """blank or newline after a keyword such as then / do / else / in"""
        if self.multiline and not self.pending and self.l.random() < 0.3:
            return self.nl()
        return self.B() if self.rich_layout else " "

    def command(self, d):
        r = self.r
        k = r.random()
        if d <= 0 or k < 0.5:
            self.last_compound = False
            return self.simple(d)
        d -= 1
        if k < 0.57:
            inner = self.seq(d)
            if self.pending:
                c = "( " + inner + self.nl() + ")"
            else:
                c = "(" + (" " if inner.startswith("(") else self.O()) + inner + self.O() + ")"
        elif k < 0.64:
            c = "{ " + self.body(d) + "}"
        elif k < 0.72:
            c = "if " + self.body(d) + "then" + self.kw() + self.body(d)
            while r.random() < 0.25:
                c += "elif " + self.body(d) + "then " + self.body(d)
            if r.random() < 0.4:
                c += "else" + self.kw() + self.body(d)
            c += "fi"
        elif k < 0.78:
            c = r.choice(["while", "until"]) + " " + self.body(d) + "do" + self.kw() + self.body(d) + "done"
        elif k < 0.85:
            c = "for " + self.name()
            kk = r.random()
            if kk < 0.6:
                c += " in" + "".join(" " + self.word(1) for _ in range(r.choice([0, 1, 3]))) + self.sep()
            elif kk < 0.8:
                c += self.sep()
            else:
                c += " "
            c += "do " + self.body(d) + "done"
        elif k < 0.92:
            c = "case " + self.word(1) + " in" + self.kw()
            for _ in range(r.choice([0, 1, 2])):
                c += r.choice(["", "("]) + "|".join(self.word(0) if r.random() < 0.7 else "*" for _ in range(r.choice([1, 1, 2]))) + ") "
                if r.random() < 0.85:
                    c += self.seq(d)
                    if self.pending:
                        c += self.nl()
                c += " ;;" + self.kw()
            c += "esac"
        elif k < 0.96:
            if r.random() < 0.5:
                c = self.name() + "() " + "{ " + self.body(d) + "}"
            else:
                c = self.name() + "() " + "( " + self.seq(d) + (self.nl() if self.pending else " ") + ")"
        else:
            c = "((" + r.choice([" 1 + 2 ", "x++", "a = b * 2", "1<2"]) + "))"
        self.last_compound = True      # the text ends with the closing token of a compound command
        if r.random() < 0.12 and not c.startswith("(("):
            c += " " + self.redir(d)
            self.last_compound = False
        return c

    def program(self, d=3):
        """one complete command line (terminated by newline, here-documents flushed)"""
        self.pending = []
        self.heredocs = []
        self.comments = []
        s = self.seq(d)
        return s + self.nl()


def mutate_tokens(rnd, src):
    """single-token deletion / insertion / duplication / adjacent swap on a blank-separated rendering"""
    toks = src.replace("\n", " \n ").split(" ")
    toks = [t for t in toks if t != ""]
    if not toks:
        return src
    k = rnd.random()
    i = rnd.randrange(len(toks))
    extra = rnd.choice(["if", "then", "fi", "do", "done", "esac", "in", ")", "(", "{", "}", ";;", "|", "&&", ";", "&", "<", "'", '"', "`", "$(", "${", "!", "case", "for", "else", "elif"])
    if k < 0.25:
        del toks[i]
    elif k < 0.5:
        toks.insert(i, extra)
    elif k < 0.65:
        toks.insert(i, toks[i])
    elif k < 0.8:
        # glue an expansion, a quoting or plain text onto a token: names, reserved words, IO numbers and
        # delimiters turn into composite words
        g = rnd.choice(["$b", '""', "''", "\\y", "$(id)", "`y`", "$((1))", "${m}", "x", "1", "=", "=v", "-", "é"])
        if toks[i] != "\n":
            toks[i] = toks[i] + g if rnd.random() < 0.7 else g + toks[i]
    elif i + 1 < len(toks):
        toks[i], toks[i + 1] = toks[i + 1], toks[i]
    return " ".join(toks).replace(" \n ", "\n")


def pcase(src, aliases=None, kind="s", fail_at=None):
    al = ",".join("%s=%s" % (hx(k), hx(v)) for k, v in (aliases or {}).items())
    return "%s\t%s\t%s\t%s" % (hx(src), al, kind, "" if fail_at is None else str(fail_at))


def describe(case):
    f = case.split("\t")
    s = "parse(%r" % unhx(f[0]).decode("utf-8", "replace")
    if len(f) > 1 and f[1]:
        s += ", aliases=%r" % {unhx(kv.split("=")[0]).decode(): unhx(kv.split("=")[1]).decode() for kv in f[1].split(",")}
    if len(f) > 2 and f[2]:
        s += ", source=%s" % f[2]
    if len(f) > 3 and f[3]:
        s += ", fail_at=%s" % f[3]
    return s + ")"


def shrink(src, pred, max_steps=3000):
    """greedy delta-debugging: drop lines, then blank-separated tokens, then single characters, while pred(src) stays true"""
    steps = 0
    for split, join in (("\n", "\n"), (" ", " "), (None, "")):
        changed = True
        while changed and steps < max_steps:
            changed = False
            parts = list(src) if split is None else src.split(split)
            for i in range(len(parts)):
                t = join.join(parts[:i] + parts[i + 1:])
                steps += 1
                if t != src and pred(t):
                    src = t
                    changed = True
                    break
                if steps >= max_steps:
                    break
    return src


def heredoc_corpus():
    """here-documents in every position relative to compound commands and multi-line words, with bodies that hold
    expansions spanning lines: (announcement line, rest of the program) x operators x delimiter quoting x bodies"""
    bodies = ["", "line\n", "a $x\n", "$(c)\n", "$(\n\techo x\n)\n", "`a\nb`\n", "x $((1 +\n2)) y\n", "a\\\nb\n", "${v:-$(\n\tp\n)}\n", "\"$(\n\tq\n)\" '\n"]
    ctxs = [("cat {H} | while a; do", "\tb\ndone\n"), ("cat {H}; while true; do", "\tfoo\ndone\n"), ("cat {H} && if a; then", "\tb\nfi\n"),
            ("cat {H} | {", "\tb\n}\n"), ("if cat {H}; then", "\ta\nfi\n"), ("while a {H}; do", "\tb\ndone\n"), ("cat {H} | (b", "c)\n"),
            ("f() { cat {H}", "}\n"), ("case x in a) cat {H}", ";; esac\n"), ("for i in 1; do cat {H}", "done\n"), ("cat {H}", ""),
            ("cat {H} | until a; do", "\tb\ndone | c\n"), ("{ cat {H}; if a; then", "\tb\nfi; }\n"), ("cat {H} || for i in 1 2; do", "\tb\ndone\n"),
            ("cat {H}; case x in", "a) b ;;\nesac\n"), ("! cat {H} | f() {", "\tb\n}\n"), ("x=$(cat {H}", ")\n"), ("cat {H} &", "wait\n")]
    out = []
    for op in ("<<", "<<-"):
        for q in ("E", "'E'", "\\E"):
            for b in bodies:
                body = b if op == "<<" else "".join("\t" + ln + "\n" for ln in b.split("\n")[:-1])
                for first, rest in ctxs:
                    out.append(first.replace("{H}", op + q) + "\n" + body + ("\t" if op == "<<-" else "") + "E\n" + rest)
    # here-documents pending on two nesting levels at once (same and distinct delimiters), announced before and inside the
    # condition of a multi-line compound command
    for d1, d2 in (("EOF", "EOF"), ("A", "B")):
        for link in ("|", "&&", "||", ";"):
            for head, tail in (("while cat <<%s; do" % d2, "\ttrue\ndone\n"), ("until cat <<%s; do" % d2, "\ttrue\ndone\n"),
                               ("if cat <<%s; then" % d2, "\ttrue\nfi\n"), ("if a; then b; elif cat <<%s; then" % d2, "\tc\nfi\n"),
                               ("{ cat <<%s;" % d2, "\ttrue\n}\n"), ("(cat <<%s" % d2, "\ttrue\n)\n")):
                out.append("cat <<%s %s %s\na\n%s\nb\n%s\n%s" % (d1, link, head, d1, d2, tail))
    # a here-document operator whose body never comes (the substitution closes on the same line), inside multi-line
    # arithmetic and inside a here-document body
    for sub in ("$(cat <<E)", "`cat <<-E`", "$(cat <<E | b)"):
        out += ["echo $((\n%s + 1\n))\n" % sub, "((\n%s + 1\n))\n" % sub, "echo $((1 +\n%s))\n" % sub, "cat <<A\n%s\nA\n" % sub,
                "cat <<A\nfoo %s bar\nA\n" % sub, "echo %s\n" % sub, "if a; then\n cat <<A\n%s\nA\nfi\n" % sub, "x=\"%s\"\n" % sub]
    # delimiters that begin with the character of another operator spelling: '<< -E' is not '<<-E'
    for first, rest in ctxs[:8] + [("cat {H}", "")]:
        for op, d, body in (("<< ", "-E", "x\n"), ("<< ", "-", "y\n"), ("<<- ", "-E", "\tz\n"), ("<< ", "--", ""), ("<<", "'-E'", "q\n"), ("<< ", "-E-", "- E\n")):
            dl = d.strip("'")
            out.append(first.replace("{H}", op + d) + "\n" + body + ("\t" if op.startswith("<<-") else "") + dl + "\n" + rest)
    # the empty delimiter, and delimiters whose quoting is nested
    for first, rest in ctxs[:6] + [("cat {H}", "")]:
        out.append(first.replace("{H}", "<<''") + "\nx\n\n" + rest)
        out.append(first.replace("{H}", "<<''") + "\n\n" + rest)             # empty body, empty delimiter line
        out.append(first.replace("{H}", "<<-\"\"") + "\n\t\n" + rest)
        out.append(first.replace("{H}", "<<\"a\\\"b\"") + "\n$x\na\"b\n" + rest)
    # two here-documents on one line, the second body with a multi-line expansion
    for first, rest in ctxs[:6]:
        out.append(first.replace("{H}", "<<A <<B") + "\n1\nA\n$(\n\tx\n)\nB\n" + rest)
    return out


def arith_corpus():
    """multi-line arithmetic whose parts are separated only by the line break: the second part starts in the column where
    the first one ended (and variations), as a command and as an expansion, alone, in double quotes, in a here-document"""
    out = []
    for p1, p2 in (("1", "2"), ("$x", "y"), ("a", "+b"), ("x", "=1"), ("${v}", "1"), ("1", "$y")):
        for prefix, opener, closer, tail in (("", "((", "))", ""), ("echo ", "$((", "))", ""), ('echo "', "$((", "))", '"'), ("x=", "$((", "))", ""),
                                             ("! ", "((", "))", ""), ("if ", "((", "))", "; then a; fi"), ("echo a$((1)) ", "$((", "))", "")):
            for shift in (0, 1, -1):
                first = prefix + opener + p1
                col = len(first) + shift
                if col < 0:
                    continue
                out.append(first + "\n" + " " * col + p2 + closer + tail + "\n")
                out.append(first + "\n" + " " * col + p2 + "\n" + closer + tail + "\n")
            out.append(prefix + opener + "\n" + p1 + "\n " + p2 + "\n" + closer + tail + "\n")
        out.append("cat <<E\n$((" + p1 + "\n   " + p2 + "))\nE\n")
    # empty and one-character quotes, escapes and expansions directly before / after another part
    for q in ('""', "''", '"a"', "'a'", "\\a", "${x:-\"\"}", "${x}", "$x", "$(a)", "`a`", "$((1))", '"$x"', '"${x:-}"', "${#x}"):
        for gap in ("", " ", "  "):
            for nxt in ("+1", "1", "$y", "* 2", '""', "''"):
                out.append("echo $((" + q + gap + nxt + "))\n")
                out.append("((" + nxt.lstrip("+* ") + gap + q + gap + nxt + "))\n")
    # parts of one line with multi-byte text before them: columns count characters, not bytes; the printer decides on a blank
    # between two parts from their recorded columns
    for wide in ("é", "日本", "éé", "\"é\"", "'日'"):
        for gap in ("", " ", "  ", "   "):
            for nxt in ("$x", "1", "${v}", "y", "+1"):
                for opener, closer, prefix in (("$((", "))", "echo "), ("((", "))", ""), ("$((", "))", 'echo "é" ')):
                    out.append(prefix + opener + wide + gap + nxt + closer + "\n")
                    out.append(prefix + opener + nxt + gap + wide + gap + nxt + closer + "\n")
    # a quoted part that spans lines with multi-byte text after its last newline, next to another part: End() of such a part
    # counts characters after the newline
    for wide in ("\u00e9", "\u65e5\u672c", "a\u00e9", "\u00e9\u00e9\u00e9"):
        for gap in ("", " ", "  ", "   "):
            for nxt in ("$x", "1", "${v}", "+1"):
                for q in ("'a\n%s'", '"b\n%s"', "${y:-\n%s}", "'\n\n%s'"):
                    part = q % wide
                    out.append("echo $((" + part + gap + nxt + "))\n")
                    out.append("((" + part + gap + nxt + "))\n")
                    out.append("echo \"$((" + nxt.lstrip("+") + gap + part + gap + nxt + "))\"\n")
    # empty expressions whose brackets stand on different lines (a line break, a continuation, blanks), alone and nested
    for prefix, opener, closer, tail in (("", "((", "))", ""), ("echo ", "$((", "))", ""), ('echo "', "$((", "))", '"'), ("x=", "$((", "))", " y"),
                                         ("{\n", "((", "))", "\n}"), ("if ", "((", "))", "; then a; fi"), ("echo $(", "((", "))", ")")):
        for mid in ("", " ", "\n", " \n", "\n ", "\\\n", " \\\n", "\n\n", "\n\t\n"):
            out.append(prefix + opener + mid + closer + tail + "\n")
    out.append("cat <<E\n$((\\\n))\nE\n")
    return out


def heredoc_truncations():
    """sources cut inside the here-document region (after the announcement, before the last delimiter line is complete):
    every one of them leaves a here-document unterminated and must be rejected"""
    progs = [("cat <<A", [("foo\nbar\n", "A")]), ("cat <<A <<B", [("1\n", "A"), ("2\n3\n", "B")]), ("cat <<A; cat <<-B", [("x\n", "A"), ("\ty\n", "\tB")]),
             ("cat <<A <<B <<C", [("", "A"), ("b\n", "B"), ("c\n", "C")]), ("if a; then b; fi <<END <<'E2'", [("q\n", "END"), ("$r\n", "E2")]),
             ("a && b <<A | c <<\\B", [("", "A"), ("zz\n", "B")]), ("{ cat <<EOF1; } <<EOF2", [("in\n", "EOF1"), ("out\n", "EOF2")]),
             ("cat <<A |", [("l\n", "A")]), ("x=$(cat <<A", [("v\n", "A")]), ("cat <<'A B'", [("t\n", "A B")])]
    out = []
    for first, docs in progs:
        text = first + "\n"
        ends = []
        for body, delim in docs:
            text += body + delim
            ends.append(len(text))
            text += "\n"
        last = ends[-1]
        for p in range(len(first), last):
            out.append(text[:p])
        # the input ends on the announcing line itself: inside a trailing comment, after a blank, after a line continuation
        for tail in (" #c", " # c\\", " #", "\t#\u00e9 d", " ", " \\\n", " \\\n#c", "; #c", " # `", " #c\r"):
            out.append(first + tail)
    return out


def illformed_contexts():
    """ill-formed expansions put in every context where an expansion is scanned: each source must be rejected"""
    exp = ["${x", "${", "${}", "${x:-", "${x:-a", "$(", "$(a", "$((", "$((1+", "$((1+2)", "`", "`a", "${x$(}", "$(a ${b)", "${#", "${x%", "${x:-$(a}", "$(a \"b)",
           # the string length takes no operator (the # was dropped silently)
           "${#x:-1}", "${#x%y}", "${#x-}", "${#1+2}", "${#x y}"]
    wordonly = ["'a", "\"a", "\"${x\"", "\"$(a\""]
    wctx = ["echo X", "echo a X", "echo \"X\"", "a=X", "echo ${y:-X}", "echo $(echo X)", "for i in X; do :; done", "case X in a) ;; esac",
            "case a in X) ;; esac", "echo >X", "f() { echo X; }", "if X; then :; fi", "echo a; X", "! X", "a | X", "( X )", "while X; do :; done",
            "echo \"a ${y:-X} b\"", "b=1 X"]
    hctx = ["cat <<E\nX\nE\n", "cat <<E\npre X\nE\n", "cat <<-E\n\tX\n\tE\n", "cat <<'Q' <<E\nq\nQ\nX\nE\n", "cat <<\\Q <<E\nq\nQ\nX\nE\n",
            "cat <<\"Q\" <<E\nq\nQ\nX\nE\n", "cat <<A <<E\na\nA\nX\nE\n", "cat <<'Q'; cat <<E\nq\nQ\nX\nE\n",
            "cat <<'Q' | cat <<-E\nq\nQ\n\tX\n\tE\n", "x=$(cat <<'Q' <<E\nq\nQ\nX\nE\n)", "if a <<'Q'; then b <<E; fi\nq\nQ\nX\nE\n",
            "cat <<E <<'Q'\nX\nE\nq\nQ\n", "cat <<E\n$y X\nE\n", "{ cat <<'Q'; cat <<E; }\nq\nQ\nX\nE\n", "cat <<Q\\Q <<E\nq\nQQ\nX\nE\n"]
    out = []
    # a backquote substitution that ends while a command is still open in it, alone and followed by text that would
    # complete the command outside the substitution
    for inner, tail in (("case x in a", " b ;; esac)"), ("case x in a", ""), ("case x in", " a) b ;; esac)"), ("if a", "; then b; fi)"), ("if a; then b", "; fi)"),
                        ("( a", " )"), ("{ a;", " })"), ("while a", "; do b; done)"), ("for i in 1", "; do :; done)"), ("a | ( b", ")"),
                        ("case x in (a", " b ;; esac)"), ("case x in a|b", " c ;; esac)"), ("until a; do b", "; done)"), ("f() { a;", " })"),
                        ("f(", " { :; })"), ("f(", ") { :; }"), ("f(", ""), ("g (", " { :; })"), ("a; f(", " ( b ))")):
        for c in ("echo `X`T", "echo \"`X`\"T", "x=`X`T", "cat <<E\n`X`T\nE\n", "echo ${y:-`X`T}", "`X`T", "echo $(echo `X`T)"):
            out.append(c.replace("X", inner).replace("T", tail))
            out.append(c.replace("X", inner).replace("T", ""))
    # a here-document announced on the line on which its command substitution ends is never given a body, whatever follows
    for inner in ("cat <<E", "a\ncat <<E", "cat <<-E", "cat <<'E'", "cat <<E; ((\n1))", "a | cat <<E", " ( cat <<E )", "{ cat <<E; }", "if a; then b <<E; fi",
                  "cat <<A\nx\nA\ncat <<E", "cat <<A <<E"):
        for c in ("echo $(X)T", "echo `X`T", "echo \"$(X)\"T", "x=$(X)T", "echo ${y:-$(X)}T", "echo $(echo $(X))T", "cat <<Q\n$(X)\nQ\nT", "( echo $(X) )T", "echo $(X) |\nb T"):
            if "`" in c and "((" in inner:
                continue
            for tail in ("\n", "\nbody\nE\n", " z\nE\n"):
                out.append(c.replace("X", inner).replace("T", tail))
    for x in exp:
        for c in wctx + hctx:
            if "`" in x and "`" in c:
                continue
            out.append(c.replace("X", x))
    for x in wordonly:
        for c in wctx:
            if '"' in c:
                continue                      # inside double quotes a single quote is literal and a double quote closes
            out.append(c.replace("X", x))
    return out
