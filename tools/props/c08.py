"""C08 — here-document bodies are attached to the right redirection, verbatim (harness handler heredoc): generated commands with
0-3 here-documents at every redirection site; the generator knows, in source order, operator, delimiter word, body and delimiter line."""
import random

from common import hx, unhx
from props import parsegen as G


def expected(hds):
    out = []
    for op, dw, body, dline in hds:
        quoted = any(ch in dw for ch in "'\\\"")
        out.append((op, body, dline, quoted))
    return out


def drop_continuations(body):
    out = []
    i = 0
    while i < len(body):
        if body[i] == "\\" and i + 1 < len(body):
            if body[i + 1] == "\n":
                i += 2
                continue
            out.append(body[i:i + 2])
            i += 2
            continue
        out.append(body[i])
        i += 1
    return "".join(out)


def judge(case, out):
    if out.startswith("skip"):
        return True
    if not out.startswith("ok"):
        return False
    f = case.split("\t")
    exp = [tuple(unhx(x).decode("utf-8", "replace") for x in e.split("|")) for e in f[1].split(";")] if f[1] else []
    got = [g.split("|") for g in out[3:].split(";")] if out[3:] else []
    if len(exp) != len(got):
        return False
    for (op, body, dline, q), g in zip(exp, got):
        if g[3] == "nil":
            return False         # Redir.Heredoc / Redir.Delim nil on an accepted command
        if q == "0":
            body = drop_continuations(body)   # backslash-newline is a line continuation in an expanding here-document
        if unhx(g[0]).decode() != op or unhx(g[1]).decode("utf-8", "replace") != body or unhx(g[2]).decode("utf-8", "replace") != dline:
            return False
        has_exp = any(t in body for t in ("$x", "$(c)", "`c`"))
        if q == "1" and g[3] == "x":
            return False         # quoted delimiter: the body must be literal
        if q == "0" and has_exp and g[3] != "x":
            return False         # unquoted delimiter: $, backquote are expansions
    return True


class P:
    id = "C08"
    rule = ("generated commands (depth 1-3) carrying here-documents at simple-command and compound-command redirection sites, inside compound commands, "
            "pipelines, lists; several per line; bodies from {empty, empty first line, text, '$x', '$(c)', '`c`', backslash forms, a line equal to another "
            "delimiter, tab-indented lines, comment-like lines}; delimiters unquoted / single-quoted / backslash-quoted; << and <<- (tab-indented "
            "delimiter line). Expected (operator, body, delimiter line, quoted?) in source order comes from the generator. Non-trivial = at least one here-document")
    assumptions = ["here-documents inside command substitutions are not generated (the nested parse reads them; covered by the C01/C05 corpora only)"]
    exhaustive = False

    def parts(self, seed, tier, C):
        rnd = random.Random(seed)
        n = 6000 if tier == "quick" else 80000
        cases = []
        g = G.Gen(rnd)
        g.ml_bodies = False     # bodies are compared as printed text; the printer re-indents multi-line expansions
        g.with_comments = True
        tries = 0
        while len(cases) < n and tries < n * 6:
            tries += 1
            src = g.program(rnd.choice([1, 2, 2, 3]))
            if not g.heredocs and rnd.random() < 0.9:
                continue
            e = ";".join("|".join(hx(x) for x in (op, body, dline, "1" if q else "0")) for op, body, dline, q in expected(g.heredocs))
            cases.append("%s\t%s" % (hx(src), e))
        for src, hd in [("cat <<E\n\nfoo\nE\n", [("<<", "\nfoo\n", "E", False)]), ("cat <<-E\n\tfoo\n\tE\n", [("<<-", "\tfoo\n", "\tE", False)]),
                        ("a <<A <<B\n1\nA\n2\nB\n", [("<<", "1\n", "A", False), ("<<", "2\n", "B", False)]), ("a <<E |\nx\nE\nb\n", [("<<", "x\n", "E", False)]),
                        ("a <<'E'\n$x `c`\nE\n", [("<<", "$x `c`\n", "E", True)]), ("a <<E\n$x\nE\n", [("<<", "$x\n", "E", False)]),
                        # the empty delimiter is matched by the first empty line
                        ("cat <<''\nx\n\nnext\n", [("<<", "x\n", "", True)]), ("cat <<\"\"\n\nnext\n", [("<<", "", "", True)]), ("cat <<-''\n\tx\n\n", [("<<-", "\tx\n", "", True)]),
                        ("cat <<'' <<E\na\n\nb\nE\n", [("<<", "a\n", "", True), ("<<", "b\n", "E", False)]), ("cat <<''\n$x y\nz\\\n\n\n", [("<<", "$x y\nz\\\n", "", True)]),
                        # quote removal of the delimiter word removes every level of quoting
                        ("cat <<\"a\\\"b\"\n$x\na\"b\n", [("<<", "$x\n", "a\"b", True)]), ("cat <<\"a\\\\b\"\nx\na\\b\n", [("<<", "x\n", "a\\b", True)]),
                        ("cat <<\"a\\$b\"\nx\na$b\n", [("<<", "x\n", "a$b", True)]), ("cat <<'a\"b'\nx\na\"b\n", [("<<", "x\n", "a\"b", True)]),
                        ("cat <<\"a'b\"\n$x\na'b\n", [("<<", "$x\n", "a'b", True)]), ("cat <<E\"\"\n$x\nE\n", [("<<", "$x\n", "E", True)]),
                        ("cat <<\"a\\`b\"\nx\na`b\n", [("<<", "x\n", "a`b", True)]),
                        # a comment between an operator that allows a line break and the newline at which the bodies begin
                        ("cat <<E | # c\nbody\nE\ntr a b\n", [("<<", "body\n", "E", False)]), ("cat <<E |#c\nbody\nE\nb\n", [("<<", "body\n", "E", False)]),
                        ("cat <<E && # note\n\nx\nE\nb\n", [("<<", "\nx\n", "E", False)]), ("a <<A <<'B' || #c\n1\nA\n$2\nB\nb\n", [("<<", "1\n", "A", False), ("<<", "$2\n", "B", True)]),
                        ("{ cat <<E && # c\nbody line\nE\necho ok\n}\n", [("<<", "body line\n", "E", False)]),
                        ("case x in a) cat <<E ;; # c\nbody\nE\nesac\n", [("<<", "body\n", "E", False)]),
                        ("cat <<-E | # c\n\tb\n\tE\nx\n", [("<<-", "\tb\n", "\tE", False)]), ("cat <<E | # c1\n# not a comment\nE\nb\n", [("<<", "# not a comment\n", "E", False)]),
                        ("if a <<E; then # c\nbody\nE\n:; fi\n", [("<<", "body\n", "E", False)]), ("a <<E & # c\nbody\nE\n", [("<<", "body\n", "E", False)]),
                        ("a <<E; # c\nbody\nE\n", [("<<", "body\n", "E", False)]), ("( a <<E # c\nbody\nE\n)\n", [("<<", "body\n", "E", False)]),
                        ("while a <<E; do # c\nbody\nE\nb; done\n", [("<<", "body\n", "E", False)]),
                        # a line continuation after an operator that allows a line break: the bodies begin after the newline that ends the
                        # continued command line
                        ("cat <<E |\\\ncat\nbody\nE\n", [("<<", "body\n", "E", False)]), ("cat <<E | \\\n  cat\nbody\nE\n", [("<<", "body\n", "E", False)]),
                        ("cat <<E && \\\n\tb\nx\nE\n", [("<<", "x\n", "E", False)]), ("a <<A <<'B' ||\\\nb\n1\nA\n$2\nB\n", [("<<", "1\n", "A", False), ("<<", "$2\n", "B", True)]),
                        ("{ cat <<E &&\\\n echo ok\nbody\nE\n}\n", [("<<", "body\n", "E", False)]), ("case x in a) cat <<E ;; \\\n esac\nbody\nE\n", [("<<", "body\n", "E", False)]),
                        ("cat <<E | \\\n\\\n cat\nb\nE\n", [("<<", "b\n", "E", False)]), ("cat <<-E |\\\n cat\n\tb\n\tE\n", [("<<-", "\tb\n", "\tE", False)]),
                        ("cat <<E | \\\n # c\nb\nE\ncat\n", [("<<", "b\n", "E", False)])]:
            e = ";".join("|".join(hx(x) for x in (op, body, dline, "1" if q else "0")) for op, body, dline, q in hd)
            cases.append("%s\t%s" % (hx(src), e))
        # the literal-body reader model (Lex/Heredoc.v) against the implementation: quoted delimiters
        lit = []
        lines_pool = ["", "a", "E", " E", "E ", "\tE", "EE", "x y", "$x", "`c`", "\\", "\t", "\tb", "é", "#c", "'", '"']
        for _ in range(4000 if tier == "quick" else 60000):
            delim = rnd.choice(["E", "EOF", "a b", "é", "E", "EOF", ""])
            dash = rnd.random() < 0.4
            lines = [rnd.choice(lines_pool) for _ in range(rnd.randint(0, 5))]
            k = rnd.random()
            if k < 0.8:
                text = "".join(l + "\n" for l in lines) + ("\t" * rnd.randint(0, 2) if dash and rnd.random() < 0.5 else "") + delim + rnd.choice(["\n", "\n", "\nrest\n", ""])
            else:
                text = "".join(l + "\n" for l in lines)      # no delimiter: error
            lit.append("%s\t%s\t%s" % ("1" if dash else "0", hx(delim), hx(text)))
        # the expanding-body reader model (Lex/HeredocExp.v): unquoted delimiters, bodies of physical lines that end in a
        # backslash (continued), hold backslash pairs, spell the delimiter after a continuation; no $ and no backquote
        exp_cases = []
        xpool = ["", "a", "E", " E", "E ", "\tE", "EE", "x y", "k\\", "\\", "E\\", "\\$x", "\\\\", "\\`", "\\a b", "a\\\\", "\t", "\tb", "\u00e9", "#c", "EO\\", "F", "\\\"q"]
        for _ in range(4000 if tier == "quick" else 60000):
            delim = rnd.choice(["E", "EOF", "\u00e9", "E", "EOF", "x1"])
            dash = rnd.random() < 0.4
            lines = [rnd.choice(xpool) for _ in range(rnd.randint(0, 6))]
            k = rnd.random()
            if k < 0.8:
                text = "".join(l + "\n" for l in lines) + ("\t" * rnd.randint(0, 2) if dash and rnd.random() < 0.5 else "") + delim + rnd.choice(["\n", "\n", "\nrest\n", "", "\\\n"])
            else:
                text = "".join(l + "\n" for l in lines)      # no delimiter (unless a line spells it): error
            exp_cases.append("%s\t%s\t%s\tu" % ("1" if dash else "0", hx(delim), hx(text)))
        return [{"name": "expanding-reader-model", "harness": "hdoc", "driver": "hdoc", "cases": exp_cases,
                 "nontrivial": lambda c: "5c0a" in c.split("\t")[2] or len(c.split("\t")[2]) > 6, "distribution": {"cases": len(exp_cases)}},
                {"name": "literal-reader-model", "harness": "hdoc", "driver": "hdoc", "cases": lit,
                 "nontrivial": lambda c: len(c.split("\t")[2]) > 6, "distribution": {"cases": len(lit)}},
                {"name": "heredocs", "harness": "heredoc", "driver": None, "cases": cases, "impl_ok": judge,
                 "nontrivial": lambda c: c.split("\t")[1] != "",
                 "distribution": {"cases": len(cases)}}]

    def describe(self, part, case):
        f = case.split("\t")
        if part == "expanding-reader-model":
            return "here-document %s%s followed by %r" % ("<<-" if f[0] == "1" else "<<", unhx(f[1]).decode("utf-8", "replace"), unhx(f[2]).decode("utf-8", "replace"))
        if part == "literal-reader-model":
            return "here-document %s'%s' followed by %r" % ("<<-" if f[0] == "1" else "<<", unhx(f[1]).decode("utf-8", "replace"), unhx(f[2]).decode("utf-8", "replace"))
        exp = [tuple(unhx(x).decode("utf-8", "replace") for x in e.split("|")) for e in f[1].split(";")] if f[1] else []
        return "here-documents of %r expected %r" % (unhx(f[0]).decode("utf-8", "replace"), exp)

    def classify(self, part, case, impl, model, judge_, findings):
        return None

    def replay(self, payload, C):
        c = payload["case"]
        if payload.get("part") in ("literal-reader-model", "expanding-reader-model"):
            i = C.run_harness("hdoc", [c])[0]
            m, _ = C.run_driver("hdoc", [c], [i])[0]
            print("case :", c, "\nimpl :", i, "\nmodel:", m)
            if i != m:
                print("VIOLATION property=C08 replay=(replayed)")
                return 1
            print("replay: property holds on this case now")
            return 0
        o = C.run_harness("heredoc", [c])[0]
        print("case :", self.describe(None, c))
        print("impl :", o[:400])
        if not judge(c, o):
            print("VIOLATION property=C08 replay=(replayed)")
            return 1
        print("replay: property holds on this case now")
        return 0


PROP = P()
