"""Derivation generator for C02: programs are generated as token lists (the derivation's terminals, with structured words), then
rendered to text with a random, grammar-preserving layout.  The expected tokens are serialised for the OCaml driver, which runs the
Coq grammar model on them to obtain the expected skeleton; the implementation's delivered tokens and AST are compared with both."""
import random

RESERVED = ["if", "then", "else", "elif", "fi", "do", "done", "case", "esac", "while", "until", "for", "in", "{", "}", "!"]
OPTEXT = {"AND": "&&", "OR": "||", "PIPE": "|", "LPAREN": "(", "RPAREN": ")", "LAE": "((", "RAE": "))", "BREAK": ";;", "AMP": "&", "SEMI": ";",
          "LT": "<", "GT": ">", "CLOBBER": ">|", "APPEND": ">>", "HEREDOC": "<<", "HEREDOCI": "<<-", "DUPIN": "<&", "DUPOUT": ">&", "RDWR": "<>",
          "BANG": "!", "LBRACE": "{", "RBRACE": "}", "FOR": "for", "CASE": "case", "ESAC": "esac", "IN": "in", "IF": "if", "ELIF": "elif",
          "THEN": "then", "ELSE": "else", "FI": "fi", "WHILE": "while", "UNTIL": "until", "DO": "do", "DONE": "done", "NL": "\n"}
WORDLIKE = {"WORD", "NAME", "ASSIGN", "IONUM", "BANG", "LBRACE", "RBRACE", "FOR", "CASE", "ESAC", "IN", "IF", "ELIF", "THEN", "ELSE", "FI", "WHILE",
            "UNTIL", "DO", "DONE"}
REDIR = ["LT", "GT", "CLOBBER", "APPEND", "DUPIN", "DUPOUT", "RDWR"]


def hx(b):
    if isinstance(b, str):
        b = b.encode("utf-8")
    return b.hex()


class Part:
    def __init__(self, ser, text):
        self.ser, self.text = ser, text


class Tok:
    def __init__(self, kind, word=None, text=None, here=None):
        self.kind = kind
        self.word = word            # list of Part or None
        self.text = text if text is not None else ("".join(p.text for p in word) if word is not None else OPTEXT[kind])
        self.here = here            # (body text, delimiter line, (heredoc ser, delim ser)) on the delimiter WORD of a here-document

    def ser(self):
        return self.kind + "#" + ("-" if self.word is None else wser(self.word))


def wser(parts):
    return "[" + ",".join(p.ser for p in parts) + "]"


def ser_tokens(toks, hs=()):
    s = "@".join(t.ser() for t in toks)
    if hs:
        s += "!" + "|".join(a + "~" + b for a, b in hs)
    return s


class DGen:
    def __init__(self, rnd, layout=None, nl=None):
        self.r = rnd                # structure: what the skeleton depends on
        self.l = layout or rnd      # blanks, comments, line continuations
        self.n = nl or rnd          # newline tokens at linebreak positions and ';' versus newline separators
        self.rich = True
        self.litonly = False

    # ------------------------------------------------------------------ words
    NAMES = ["x", "y", "foo", "BAR", "_v1", "a1"]
    LITS = ["a", "b", "echo", "foo", "bar", "x1", "-n", "file.txt", "/bin/ls", "1", "é", "日本", "a.b", "x-y", "A_1", "*.c", "?", "~", "~/f", "+1", "%s", "a:b", "a,b", "@"]

    def L(self, text):
        return Part("L" + hx(text), text)

    def name(self):
        return self.r.choice(self.NAMES)

    def lit(self, cmdpos=False):
        r = self.r
        if cmdpos:
            return self.L(r.choice(["a", "b", "echo", "cmd", "ls", "x1", "/bin/ls", "é", "true", "a.b", "x-y", "ls2"]))
        k = r.random()
        if k < 0.08:
            return self.L(r.choice(RESERVED[:13] + ["in", "do"]))      # reserved words are ordinary words here
        if k < 0.14:
            return self.L(r.choice(["a=b", "x=", "=", "a=b=c"]))        # not an assignment after the command name
        return self.L(r.choice(self.LITS))

    def param(self, d, ctx):
        r = self.r
        k = r.random()
        if k < 0.35:
            n = r.choice(self.NAMES + ["1", "9", "@", "*", "#", "?", "-", "$", "!", "0"])
            return Part("P0{%s::N}" % hx(n), "$" + n), n
        n = r.choice(self.NAMES + ["1", "10", "@", "*"])
        if k < 0.5:
            return Part("P1{%s::N}" % hx(n), "${" + n + "}"), None
        if k < 0.58:
            return Part("P1{%s:23:N}" % hx(n), "${#" + n + "}"), None
        op = r.choice([":-", "-", ":=", "=", ":?", "?", ":+", "+", "%", "%%", "#", "##"])
        # (now and then a substitution in the word at the innermost level too: ${x:-`a`} inside $( ) and $(( )))
        w = self.opword(d - 1 if d > 1 or r.random() < 0.6 else 1, ctx)
        return Part("P1{%s:%s:%s}" % (hx(n), hx(op), wser(w)), "${" + n + op + "".join(p.text for p in w) + "}"), None

    def opword(self, d, ctx):
        """the word of ${name op word}: blanks are literal in it"""
        r = self.r
        parts = []
        for _ in range(r.choice([0, 1, 1, 2])):
            k = r.random()
            if k < 0.45:
                parts.append(self.L(r.choice(["w", "a b", "*.c", "x/y", "1", "é", " "] if ctx != "dq" else ["w", "ab", "*.c", "1"])))
            elif k < 0.6 and ctx != "dq":
                parts.append(self.sq())
            elif k < 0.75 and ctx != "dq" and d > 0:
                parts.append(self.dq(d - 1))
            elif k < 0.9:
                p, n = self.param(0, ctx)
                parts.append(p)
                if n is not None and (n[0].isalpha() or n[0] == "_"):
                    parts.append(self.L("/"))
            elif d > 0 and ctx != "bq":
                parts.append(self.subst(d - 1, ctx))
        return self.norm(parts)

    def norm(self, parts):
        """a '$name' must not be followed by a character that would extend the name"""
        out = []
        for p in parts:
            if out and out[-1].ser.startswith("P0{") and p.text[:1] and (p.text[0].isalnum() or p.text[0] == "_"):
                out.append(self.L("/"))
            out.append(p)
        return out

    def sq(self):
        t = self.r.choice(["", "a b", "$x", '"', "\\", "a\nb", "#c", ";", "`", "é", "  ", "*"])
        return Part("Q27[L%s]" % hx(t), "'" + t + "'")

    def bs(self):
        c = self.r.choice([" ", ";", "a", "$", "\\", "'", '"', "#", "&", "|", "(", ")", "<", ">", "é", "*", "`", "\t", "{"])
        return Part("Q5c[L%s]" % hx(c), "\\" + c)

    def dq(self, d):
        r = self.r
        parts = []
        for _ in range(r.choice([0, 1, 1, 2, 3])):
            k = r.random()
            if k < 0.4:
                parts.append(self.L(r.choice(["a", "a b", "'", "#n", " ", "é", ";", "\\q", "a\nb", "*", "(", "x y z", "\\a"])))
            elif k < 0.55:
                c = r.choice(["$", '"', "\\", "`"])
                parts.append(Part("Q5c[L%s]" % hx(c), "\\" + c))
            elif k < 0.8:
                p, n = self.param(d, "dq")
                parts.append(p)
            elif d > 0:
                parts.append(self.subst(d - 1, "dq") if r.random() < 0.7 else self.arith(d - 1))
        parts = self.norm(parts)
        if not parts:
            return Part("Q22N", '""')
        return Part("Q22" + wser(parts), '"' + "".join(p.text for p in parts) + '"')

    def subst(self, d, ctx):
        r = self.r
        bq = ctx != "bq" and r.random() < 0.3
        sub = DGen(self.r, self.l, self.n)
        sub.rich = False
        sub.litonly = bq            # inside backquotes the text is unescaped first: plain words only
        toks = sub.term(min(d, 1), top=not (r.random() < 0.3), plain=bq)
        text, _c, hs = render(toks, self.l, rich=False, final_newline=False)
        if bq:
            return Part("Cb<" + ser_tokens(toks) + ">", "`" + text + "`")
        if text.startswith("("):
            text = " " + text
        if text.endswith("\n") is False and "\n" in text and self.n.random() < 0.5:
            text += "\n"
        return Part("Cd<" + ser_tokens(toks, hs) + ">", "$(" + text + ")")

    def arith(self, d):
        r = self.r
        parts = []
        for _ in range(r.choice([1, 1, 2, 3])):
            k = r.random()
            if k < 0.6 or d <= 0:
                parts.append(self.L(r.choice(["1", "x", "1+2", "x*2", "(1)", "1<<2", "a?b:c", "+", "-", "a>b", "x=1", "(a+b)*c", "!x", "~1", "a&&b", "1,2"])))
            elif k < 0.85:
                p, n = self.param(0, "dq")
                parts.append(p)
            else:
                parts.append(self.subst(0, "dq"))
        parts = self.norm(parts)
        # text written without blanks is one literal (literals are kept apart only across blanks)
        merged = []
        for p in parts:
            if merged and merged[-1].ser.startswith("L") and p.ser.startswith("L"):
                merged[-1] = self.L(merged[-1].text + p.text)
            else:
                merged.append(p)
        parts = merged
        return Part("A" + wser(parts), "$((" + "".join(p.text for p in parts) + "))")

    def word(self, d=2, cmdpos=False):
        """an unquoted-context word: list of parts"""
        r = self.r
        if getattr(self, "litonly", False):
            return [self.lit(cmdpos)]
        if cmdpos:
            return [self.lit(True)] if r.random() < 0.85 else [self.lit(True), self.sq()]
        parts = []
        n = r.choice([1, 1, 1, 2, 3])
        for _ in range(n):
            k = r.random()
            if k < 0.4 or d <= 0:
                parts.append(self.lit())
            elif k < 0.5:
                parts.append(self.sq())
            elif k < 0.62:
                parts.append(self.dq(d - 1))
            elif k < 0.7:
                parts.append(self.bs())
            elif k < 0.85:
                p, _n = self.param(d - 1, "w")
                parts.append(p)
            elif k < 0.94:
                parts.append(self.subst(d - 1, "w"))
            else:
                parts.append(self.arith(d - 1))
        parts = self.norm(parts)
        # an all-digit word directly before a redirection operator would be an IO number; '#' cannot start a word
        return parts

    # ------------------------------------------------------------------ commands (token lists)
    def W(self, parts):
        return Tok("WORD", parts)

    def redir(self, d, plain=False):
        r = self.r
        toks = []
        if r.random() < 0.3:
            n = r.choice(["2", "0", "10", "3"])
            toks.append(Tok("IONUM", [self.L(n)]))
        if not plain and r.random() < 0.3:
            op = r.choice(["HEREDOC", "HEREDOCI"])
            delim = r.choice(["EOF", "E", "END1"])
            q = r.choice(["", "", "'", "\\", '"'])
            lines = r.choice([[], ["line"], ["a b", "c"], [""], ["  two"], ["E2"], ["#nc"], ["x 'y' \"z\""], ["é"]])
            expand = None
            if q == "" and r.random() < 0.4:
                lines = lines + ["v $x w"]
                expand = True
            tab = "\t" if op == "HEREDOCI" and r.random() < 0.6 else ""
            body = "".join(tab + ln + "\n" for ln in lines)
            dline = tab + delim
            if q == "":
                w = [self.L(delim)]
            elif q == "'":
                w = [Part("Q27[L%s]" % hx(delim), "'" + delim + "'")]
            elif q == '"':
                w = [Part("Q22[L%s]" % hx(delim), '"' + delim + '"')]
            else:
                w = [Part("Q5c[L%s]" % hx(delim[0]), "\\" + delim[0])] + ([self.L(delim[1:])] if len(delim) > 1 else [])
            if body == "":
                hser = "[]"
            elif expand:
                pre, post = body.split("$x")
                hser = "[L%s,P0{78::N},L%s]" % (hx(pre), hx(post))
            else:
                hser = "[L%s]" % hx(body)
            toks.append(Tok(op))
            toks.append(Tok("WORD", w, here=(body, dline, (hser, "[L%s]" % hx(dline)))))
            return toks
        op = r.choice(REDIR)
        toks.append(Tok(op))
        if op in ("DUPIN", "DUPOUT"):
            target = [self.L(r.choice(["1", "2", "-", "f"]))]
        else:
            target = self.word(1)
            if target[0].text.startswith(("-", "&")):
                target = [self.L("f")] + target
        toks.append(Tok("WORD", target))
        return toks

    def simple(self, d, plain=False):
        r = self.r
        toks = []
        npre = r.choice([0, 0, 0, 1, 2])
        for _ in range(npre):
            if r.random() < 0.7:
                n = self.name()
                val = self.word(d) if r.random() < 0.7 else []
                val = [p for p in val if not p.ser.startswith("L") or p.text not in RESERVED] if False else val
                toks.append(Tok("ASSIGN", [self.L(n + "=")] + val))
            else:
                toks += self.redir(d, plain)
        if npre == 0 or r.random() < 0.75:
            if npre > 0 and r.random() < 0.2:
                # after an assignment or redirection prefix a reserved word is an ordinary command name
                toks.append(self.W([self.L(r.choice(RESERVED))]))
            else:
                toks.append(self.W(self.word(d, cmdpos=True)))
            for _ in range(r.choice([0, 1, 1, 2, 3])):
                if r.random() < 0.8:
                    toks.append(self.W(self.word(d)))
                else:
                    toks += self.redir(d, plain)
        return toks

    def nls(self, p=0.3, many=False):
        n = 0
        if self.n.random() < p:
            n = self.n.choice([1, 1, 2])
        return [Tok("NL") for _ in range(n)]

    def sep(self, top, amp_ok=True):
        """separator: sep_op linebreak | newline_list ('&' is structure, ';' versus newline is layout)"""
        amp = amp_ok and self.r.random() < 0.15
        if amp:
            return [Tok("AMP")] + ([] if top else self.nls(0.3))
        if top:
            return [Tok("SEMI")]
        if self.n.random() < 0.5:
            return [Tok("SEMI")] + self.nls(0.3)
        return [Tok("NL")] + self.nls(0.2)

    def term(self, d, top=False, plain=False, end_sep=None):
        """and_or (separator and_or)* [separator]; end_sep: True forces a final separator, None leaves it to chance"""
        r = self.r
        toks = self.andor(d, plain)
        for _ in range(r.choice([0, 0, 1, 2])):
            toks += self.sep(top) + self.andor(d, plain)
        if end_sep:
            # a reserved word is recognised directly after a compound command (and its redirections): the separator before
            # then / do / done / fi / elif / else / esac / } may be left out there
            # (the separator is always drawn, so that the structure draws do not depend on this layout decision; '&' is structure)
            lc = getattr(self, "last_compound", False)
            sp = self.sep(top)
            if not (lc and not top and sp[0].kind != "AMP" and self.n.random() < 0.3):
                toks += sp
        elif end_sep is None and self.n.random() < 0.3:
            toks += self.sep(top, amp_ok=False)      # an optional trailing ';' or newline
        return toks

    def clist(self, d, end_sep, plain=False):
        return self.nls(0.25) + self.term(d, False, plain, end_sep)

    def andor(self, d, plain=False):
        toks = self.pipeline(d, plain)
        while self.r.random() < 0.2:
            toks += [Tok(self.r.choice(["AND", "OR"]))] + self.nls(0.25) + self.pipeline(d, plain)
        return toks

    def pipeline(self, d, plain=False):
        toks = [Tok("BANG")] if self.r.random() < 0.1 else []
        toks += self.command(d, plain)
        while self.r.random() < 0.2:
            toks += [Tok("PIPE")] + self.nls(0.25) + self.command(d, plain)
        return toks

    def compound(self, d, plain=False, kind=None):
        r = self.r
        kind = kind or r.choice(["subshell", "group", "arith", "for", "case", "if", "while", "until"])
        d -= 1
        if kind == "subshell":
            return [Tok("LPAREN")] + self.clist(d, None, plain) + [Tok("RPAREN")]
        if kind == "group":
            return [Tok("LBRACE")] + self.clist(d, True, plain) + [Tok("RBRACE")]
        if kind == "arith":
            e = r.choice(["1+2", "x++", "a=b*2", "1<2", "(1)", "x", "a>b", "(a+b)*(c)", "x?1:2", "!x"])
            parts = [self.L(e)]
            if r.random() < 0.3:
                parts.append(Part("P0{79::N}", "$y"))
            return [Tok("LAE"), Tok("WORD", parts), Tok("RAE")]
        if kind in ("while", "until"):
            return [Tok(kind.upper())] + self.clist(d, True, plain) + [Tok("DO")] + self.clist(d, True, plain) + [Tok("DONE")]
        if kind == "if":
            toks = [Tok("IF")] + self.clist(d, True, plain) + [Tok("THEN")] + self.clist(d, True, plain)
            while r.random() < 0.25:
                toks += [Tok("ELIF")] + self.clist(d, True, plain) + [Tok("THEN")] + self.clist(d, True, plain)
            if r.random() < 0.4:
                toks += [Tok("ELSE")] + self.clist(d, True, plain)
            return toks + [Tok("FI")]
        if kind == "for":
            toks = [Tok("FOR"), Tok("NAME", [self.L(self.name())])]
            k = r.random()
            if k < 0.55:
                toks += self.nls(0.2) + [Tok("IN")] + [self.W(self.word(1)) for _ in range(r.choice([0, 1, 2, 3]))]
                toks += [Tok(self.n.choice(["SEMI", "NL"]))] + self.nls(0.2)
            elif self.n.random() < 0.6:
                toks += [Tok(self.n.choice(["SEMI", "NL"]))] + self.nls(0.2)
            return toks + [Tok("DO")] + self.clist(d, True, plain) + [Tok("DONE")]
        if kind == "case":
            toks = [Tok("CASE"), self.W(self.word(1))] + self.nls(0.15) + [Tok("IN")] + self.nls(0.3)
            n = r.choice([0, 1, 2, 3])
            for i in range(n):
                lp = r.random() < 0.4
                if lp:
                    toks.append(Tok("LPAREN"))
                if lp and r.random() < 0.15:
                    toks.append(self.W([self.L("esac")]))     # after '(' the word esac is a pattern
                else:
                    toks.append(self.W(self.casepat()))
                while r.random() < 0.3:
                    toks += [Tok("PIPE"), self.W(self.casepat())]
                toks.append(Tok("RPAREN"))
                last = i == n - 1
                if r.random() < 0.25:
                    toks += self.nls(0.5)
                    if not last or r.random() < 0.6:
                        toks += [Tok("BREAK")] + self.nls(0.4)
                else:
                    if last and r.random() < 0.4:
                        toks += self.clist(d, True, plain)          # last item without ';;': a separator before esac
                    else:
                        toks += self.clist(d, None, plain) + [Tok("BREAK")] + self.nls(0.4)
            return toks + [Tok("ESAC")]
        raise ValueError(kind)

    def casepat(self):
        w = self.word(1)
        if len(w) == 1 and w[0].ser.startswith("L") and w[0].text in RESERVED:
            return [self.L("p")]
        return w

    def command(self, d, plain=False, kind=None):
        r = self.r
        k = r.random()
        if kind == "simple" or (kind is None and (d <= 0 or k < 0.5)):
            self.last_compound = False
            return self.simple(d, plain)
        if kind == "func" or (kind is None and k < 0.57):
            body = self.compound(d, plain, kind=r.choice(["group", "subshell", "if", "for", "case", "while", "arith"]))
            toks = [Tok("NAME", [self.L(r.choice(["f", "foo", "_g", "h1"]))]), Tok("LPAREN"), Tok("RPAREN")] + self.nls(0.2) + body
        else:
            toks = self.compound(d, plain, kind=kind)
        if toks[-1].kind != "RAE" and r.random() < 0.2:
            toks += self.redir(d, plain)
            if r.random() < 0.3:
                toks += self.redir(d, plain)
        self.last_compound = True
        return toks

    def program(self, d=3):
        return self.term(d, top=True)


# ---------------------------------------------------------------------- rendering
def render(toks, l, rich=True, final_newline=True, comments_ok=True):
    return _render(toks, l, rich, final_newline, comments_ok)


def _render(toks, l, rich, final_newline, comments_ok):
    """text of a token list under a random layout; returns (text, comments, here-document bodies in announcement order)"""
    out = []
    comments = []
    pending = []
    hs = []
    prev = None

    def blank():
        if not rich:
            return " "
        return l.choice([" ", " ", " ", "  ", "\t", " \t ", " \\\n", " \\\n "])

    def newline(last=False):
        s = ""
        if rich and comments_ok and l.random() < 0.3:
            t = l.choice([" c", "x y", " if then", " 'q", ' "d', " $(", " é", " #", "", " a\\", "\\"])
            comments.append(t)
            s += l.choice([" #", "\t#"]) + t
        s += "\n" + "".join(pending)
        pending.clear()
        if rich and not last and l.random() < 0.15:
            s += l.choice(["\n", " \n", "\n\n"])
            if comments_ok and l.random() < 0.3:
                comments.append(" own line")
                s += "# own line\n"
        return s

    for i, t in enumerate(toks):
        if t.kind == "NL":
            out.append(newline())
            prev = t
            continue
        if prev is not None and prev.kind != "NL":
            a, b = prev, t
            need = (a.kind in WORDLIKE and b.kind in WORDLIKE) or (a.kind not in WORDLIKE and b.kind not in WORDLIKE)
            if a.kind == "IONUM":
                need = False
                sp = ""
            else:
                if b.kind == "IONUM" or b.kind in REDIR or b.kind in ("HEREDOC", "HEREDOCI"):
                    need = True          # a word of digits before a redirection operator would turn into an IO number
                if a.kind in ("HEREDOC", "HEREDOCI", "DUPIN", "DUPOUT", "LT", "GT") and b.text[:1] in ("-", "&", "(", "<", ">", "|"):
                    need = True
                if a.kind in ("LPAREN",) and b.kind in ("LPAREN",):
                    need = True
                if b.kind in ("LPAREN",) and a.kind in ("WORD", "NAME", "ASSIGN") and not (a.kind == "NAME" and toks[i + 1].kind == "RPAREN"):
                    need = True
                if a.kind in WORDLIKE - {"WORD", "NAME", "ASSIGN", "IONUM"} or b.kind in WORDLIKE - {"WORD", "NAME", "ASSIGN", "IONUM"}:
                    # reserved words are recognised as whole words only
                    if not (b.kind in ("SEMI", "RPAREN", "AMP", "PIPE", "AND", "OR", "BREAK")):
                        need = True
                if a.kind == "AMP" or b.text.startswith("#"):
                    need = True
                sp = blank() if need or l.random() < 0.6 else ""
            out.append(sp)
        out.append(t.text)
        if t.here is not None:
            pending.append(t.here[0] + t.here[1] + "\n")
            hs.append(t.here[2])
        prev = t
    text = "".join(out)
    if final_newline:
        text += newline(last=True)
    elif pending:
        text += "\n" + "".join(pending)
    return text, comments, hs


def case_line(toks, l, rich=True):
    text, comments, hs = render(toks, l, rich)
    return "%s\t%s\t%s" % (hx(text), ser_tokens(toks, hs), ",".join("c" + hx(c) for c in comments))


CONTEXTS = [
    ("top", lambda g, c: c),
    ("bang", lambda g, c: [Tok("BANG")] + c),
    ("pipe-right", lambda g, c: [g.W([g.L("a")]), Tok("PIPE")] + c),
    ("pipe-left", lambda g, c: c + [Tok("PIPE"), g.W([g.L("b")])]),
    ("and-right", lambda g, c: [g.W([g.L("a")]), Tok("AND")] + c),
    ("or-left", lambda g, c: c + [Tok("OR"), g.W([g.L("b")])]),
    ("after-semi", lambda g, c: [g.W([g.L("a")]), Tok("SEMI")] + c),
    ("before-semi", lambda g, c: c + [Tok("SEMI"), g.W([g.L("b")])]),
    ("after-amp", lambda g, c: [g.W([g.L("a")]), Tok("AMP")] + c),
    ("subshell", lambda g, c: [Tok("LPAREN")] + c + [Tok("RPAREN")]),
    ("group", lambda g, c: [Tok("LBRACE")] + c + [Tok("SEMI"), Tok("RBRACE")]),
    ("group-nl", lambda g, c: [Tok("LBRACE"), Tok("NL")] + c + [Tok("NL"), Tok("RBRACE")]),
    ("if-cond", lambda g, c: [Tok("IF")] + c + [Tok("SEMI"), Tok("THEN"), g.W([g.L("b")]), Tok("SEMI"), Tok("FI")]),
    ("then-body", lambda g, c: [Tok("IF"), g.W([g.L("a")]), Tok("SEMI"), Tok("THEN")] + c + [Tok("SEMI"), Tok("FI")]),
    ("else-body", lambda g, c: [Tok("IF"), g.W([g.L("a")]), Tok("SEMI"), Tok("THEN"), g.W([g.L("b")]), Tok("SEMI"), Tok("ELSE")] + c + [Tok("NL"), Tok("FI")]),
    ("elif-cond", lambda g, c: [Tok("IF"), g.W([g.L("a")]), Tok("SEMI"), Tok("THEN"), g.W([g.L("b")]), Tok("SEMI"), Tok("ELIF")] + c + [Tok("SEMI"), Tok("THEN"), g.W([g.L("d")]), Tok("SEMI"), Tok("FI")]),
    ("while-cond", lambda g, c: [Tok("WHILE")] + c + [Tok("SEMI"), Tok("DO"), g.W([g.L("b")]), Tok("SEMI"), Tok("DONE")]),
    ("do-body", lambda g, c: [Tok("UNTIL"), g.W([g.L("a")]), Tok("SEMI"), Tok("DO")] + c + [Tok("SEMI"), Tok("DONE")]),
    ("for-body", lambda g, c: [Tok("FOR"), Tok("NAME", [g.L("i")]), Tok("IN"), g.W([g.L("1")]), Tok("SEMI"), Tok("DO")] + c + [Tok("NL"), Tok("DONE")]),
    ("case-item", lambda g, c: [Tok("CASE"), g.W([g.L("x")]), Tok("IN"), g.W([g.L("p")]), Tok("RPAREN")] + c + [Tok("BREAK"), Tok("ESAC")]),
    ("case-last", lambda g, c: [Tok("CASE"), g.W([g.L("x")]), Tok("IN"), Tok("LPAREN"), g.W([g.L("p")]), Tok("RPAREN")] + c + [Tok("NL"), Tok("ESAC")]),
]

COMMANDS = ["simple", "subshell", "group", "arith", "for", "case", "if", "while", "until", "func"]


def systematic(rnd):
    """every command form in every context (adjacent productions), each under a plain and two rich layouts"""
    out = []
    for cname, ctx in CONTEXTS:
        for kind in COMMANDS:
            g = DGen(rnd)
            c = g.command(1, kind=kind)
            toks = ctx(g, c)
            for rich in (False, True, True):
                out.append(case_line(toks, rnd, rich))
    return out
