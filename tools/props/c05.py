"""C05 / C18 — print then parse under every printer style (harness handler rt): the printed text is accepted,
denotes the same program (skeleton with ';' ~ newline, adjacent literals merged), printing is an idempotent,
deterministic normal form, the tree is untouched, failing writers are reported."""
import random

from common import hx, unhx
from props import parsegen as G


def oa16():
    rows = []
    for i in range(16):
        b = [(i >> k) & 1 for k in range(4)]
        cols = [b[0], b[1], b[2], b[3], b[0] ^ b[1], b[0] ^ b[2], b[0] ^ b[3], b[1] ^ b[2]]
        rows.append(sum(c << j for j, c in enumerate(cols)))
    return rows


C05_KINDS = ("reparse-error", "different-program", "panic")
# (a printed text that cannot be read back is not a fix-point of formatting either)
C18_KINDS = ("reparse-error", "not-idempotent", "tree-modified", "nondeterministic", "write-error-ignored", "print-error", "spurious-write-error", "panic")


def kinds_of(out):
    return out.split(":")[1].split(",") if out.startswith("FAIL:") else []


def kind(out):
    return out.split(":")[1] if out.startswith("FAIL:") else None


CORPUS = ["( (a) )\n", "$( (a) )\n", "a\\\n", "echo ''\n", "cat <<E\n\nfoo\nE\n", "cat <<-E\n\tfoo\n\tE\n", "a <<E | {\n\tb\nE\n}\n", "<<E | for x\nb\nE\ndo y; done\n",
          "if (a) then b; fi\n", "a # c\nb\n", "\\é\n", "x=1 y=2 z >f\n", "case x in a|b) c;; (d) ;; esac\n", "f() { a; }\n", "for i; do a; done\n", "while a; do b; done >f <g\n",
          "a && b || c; d &\n", "! a | b\n", "${x:-a b} \"$y\" '$z' `c` $((1+2))\n", "((x+1))\n", "if a; then b; elif c; then d; else e; fi\n", "{ a; }\n", "( a; b )\n"]


class Base:
    exhaustive = False
    kinds = ()

    def parts(self, seed, tier, C):
        rnd = random.Random(seed)
        g = G.Gen(rnd)
        g.with_comments = True
        n = 1200 if tier == "quick" else 12000
        hd = G.heredoc_corpus()
        progs = CORPUS + G.arith_corpus() + hd + [g.program(rnd.choice([1, 2, 2, 3])) for _ in range(n)]
        # renderings of grammar derivations (reserved words as command names after a prefix, esac as a pattern, separators left
        # out after compound commands, redirections in every place)
        from props import dgen as D
        drnd = random.Random(seed * 7919 + 5)
        dg = D.DGen(drnd)
        progs += [D.render(dg.program(drnd.choice([1, 2, 2, 3])), drnd, rich=drnd.random() < 0.5)[0] for _ in range(n // 2)]
        progs += [">f if a\n", "<f for\n", "a | >f do\n", ">f { a\n", "2>&1 then\n", ">f ! a\n", "x=1 >f if\n", ">f in\n", ">f }\n", ">f esac b\n", "2>f fi >g\n",
                  "case x in (esac) a;; esac\n", "case x in (esac|b) a;;\n(c) d\nesac\n", "case x in (a|esac) a;; esac\n", "case esac in (esac) esac;; esac\n"]
        # a line continuation inside a word (between any two characters of a generated program that are not blanks): the parts of
        # the word on both sides must not fuse into another token when printed
        cont = []
        crnd = random.Random(seed * 31 + 11)
        for p_ in progs[len(CORPUS):len(CORPUS) + n]:
            idx = [i for i in range(1, len(p_)) if p_[i - 1] not in " \t\n" and p_[i] not in " \t\n"]
            if not idx or crnd.random() < 0.6:
                continue
            for _ in range(crnd.choice([1, 1, 2])):
                i = crnd.choice(idx)
                p_ = p_[:i] + "\\\n" + p_[i:]
                idx = [j if j < i else j + 2 for j in idx if j != i]
                if not idx:
                    break
            cont.append(p_)
        cont += ["i\\\nf a\n", "echo $\\\n{\n", "echo $\\\n$#\n", "a=1 b\\\n=2 >f\n", "a\\\n=1 cmd\n", "echo $\\\nx\n", "echo \"$\\\nx\"\n", "echo $x\\\ny\n",
                 "cat <<E\n$x\\\ny\nE\n", "f\\\ni\n", "d\\\no\n", "echo $x\\\n_\n", "echo ${x%\\\n%w} ${y#\\\n#} ${z:-\\\na}\n", "echo $1\\\n0 $x\\\n1\n",
                 "echo ${#?\\\n}\n", "echo ${#-\\\n} ${##\\\n}\n", ">f echo a\\", "x=1 >f b\\"]
        progs = progs + cont
        pair = ",".join(str(i) for i in oa16())
        cases = []
        for k, p in enumerate(progs):
            if tier == "thorough" or k % 16 == 0 or k < len(CORPUS):
                cases.append("%s\tall\tw" % hx(p))
            else:
                cases.append("%s\t%s\tw" % (hx(p), pair))
        kinds = self.kinds

        def impl_ok(c, o):
            return not (o.startswith("FAIL:") and any(k in kinds for k in kinds_of(o))) and not o.startswith(("CRASH", "TIMEOUT", "PANIC"))
        # the printer's here-document bookkeeping replayed on the Coq model (hook printer.VerifHook)
        hsrc = G.heredoc_corpus() + G.arith_corpus() + [p_ for p_ in progs if "<<" in p_]
        hcases = ["%s\t%d" % (hx(p_), k_) for p_ in hsrc for k_ in (0, 164, 255)]
        hpart = {"name": "heredoc-placement-model", "harness": "hdprint", "driver": "hdp", "cases": hcases, "compare": lambda c, i, m: True,
                 "impl_ok": lambda c, o: o.startswith(("ok", "skip")), "nontrivial": lambda c: True,
                 "distribution": {"sources": len(hsrc), "configs": 3}}
        if self.id != "C05":
            hpart = None
        # words of literal quotings: the word the parser builds, what the printer writes for it and the word parsed from that, against
        # the scanner model and the model of the printer's notation (Lex/Reprint.v); all texts of <= 4 symbols and random longer ones
        import itertools
        walpha = ["a", "'", '"', "\\", "\n", " ", "b", "\u00e9", ";", "*", "\\\n", "$", "#", "`"]
        wt = ["".join(t) for k_ in range(1, 5) for t in itertools.product(walpha[:7], repeat=k_) if t[0] not in (" ", "\n")]
        wrnd = random.Random(seed * 13 + 3)
        for _ in range(6000 if tier == "quick" else 100000):
            t = "".join(wrnd.choice(walpha[:11] if wrnd.random() < 0.85 else walpha) for _ in range(wrnd.randint(1, 12)))
            if t[0] not in " \n":
                wt.append(t)
        wcases = ["%s\tword-text" % hx(t) for t in dict.fromkeys(wt)]

        def wcmp(c, i, m):
            if m in ("unmodelled", "noarg"):
                return True
            f = m.split(" ")
            if i.startswith(("error", "shape")) and int(f[3]) > 1:
                return True           # (what follows the word on the line is ill-formed or a redirection: not this part's business)
            return i.rstrip() == " ".join(f[:3]) and f[0] == f[2]
        wpart = {"name": "printed-words", "harness": "rword", "driver": "rword", "cases": wcases, "compare": wcmp,
                 "nontrivial": lambda c: True, "distribution": {"texts": len(wcases)}}
        # the same with simple parameter expansions ($name, $1, $@ ...; Lex/Reprint2.v, the rune-level scanner model of the theorem
        # C05_printed_word_with_parameters_is_scanned_back)
        w2alpha = ["a", "'", '"', "\\", "\n", " ", "$", "x", "1", "@", "_", "\u00e9", "#", ";", "*", "`", "\\\n", "{", "-", "$x", "$1", "$#", "$?"]
        w2 = ["".join(t) for k_ in range(1, 5) for t in itertools.product(["a", "'", '"', "\\", "$", "1", "\n", " "], repeat=k_) if t[0] not in (" ", "\n")]
        for _ in range(6000 if tier == "quick" else 100000):
            t = "".join(wrnd.choice(w2alpha) for _ in range(wrnd.randint(1, 12)))
            if t[0] not in " \n":
                w2.append(t)
        w2cases = ["%s\tword-text" % hx(t) for t in dict.fromkeys(w2)]
        w2part = {"name": "printed-words-with-parameters", "harness": "rword", "driver": "rword2", "cases": w2cases, "compare": wcmp,
                  "nontrivial": lambda c: True, "distribution": {"texts": len(w2cases)}}
        # and with braced parameter expansions (Lex/Reprint3.v, theorem C05_printed_word_with_braced_expansions_is_scanned_back): words
        # built from a small grammar of names, operators and nested words, plus texts over the characters of the ${ } syntax
        bnames = ["x", "1", "10", "@", "*", "#", "?", "-", "$", "!", "0", "_a", "x1"]
        bops = [":-", "-", ":=", "=", ":?", "?", ":+", "+", "%", "%%", "#", "##"]

        def bword(d):
            out = []
            for _ in range(wrnd.randint(0, 3)):
                k = wrnd.random()
                if k < 0.3:
                    out.append(wrnd.choice(["a", "b c", "-", "%", "=", ":", "/", "*", "x#", "1"]))
                elif k < 0.45:
                    out.append("'" + wrnd.choice(["q", "q r", "}", "$x", ""]) + "'")
                elif k < 0.6:
                    out.append('"' + wrnd.choice(["d", "d $x", "\\$", "}", "${y}", ""]) + '"')
                elif k < 0.7:
                    out.append("\\" + wrnd.choice(["}", "$", "a", "\\", "'"]))
                elif k < 0.85:
                    out.append(wrnd.choice(["$x", "$1", "$#", "$@", "$?"]))
                elif d > 0:
                    out.append(brace(d - 1))
            return "".join(out)

        def brace(d):
            n_ = wrnd.choice(bnames)
            k = wrnd.random()
            if k < 0.2:
                return "${" + n_ + "}"
            if k < 0.3:
                return "${#" + n_ + "}"
            return "${" + n_ + wrnd.choice(bops) + bword(d) + "}"
        w3 = ["".join(t) for k_ in range(1, 6) for t in itertools.product(["${", "}", "#", "x", "-", ":", "%", "?"], repeat=k_)]
        for _ in range(8000 if tier == "quick" else 120000):
            t = wrnd.choice(["", "a", "'q'", "$x"]) + brace(2) + wrnd.choice(["", "b", '"$y"', brace(1), "\\;"])
            w3.append(t)
        w3cases = ["%s\tword-text" % hx(t) for t in dict.fromkeys(w3)]
        w3part = {"name": "printed-words-with-braced-expansions", "harness": "rword", "driver": "rword3", "cases": w3cases, "compare": wcmp,
                  "nontrivial": lambda c: True, "distribution": {"texts": len(w3cases)}}
        # the printer's notation for parameter expansions (print_pexp, the model in which F64 is a theorem): nodes built from every
        # combination of braces, names (ordinary, positional, special), operators (none, the fourteen, the length form) and words
        names = ["x", "10", "#", "?", "-", "@", "*", "0", "_a1", "\u00e9"]
        ops = ["", ":-", "-", ":=", "=", ":?", "?", ":+", "+", "%", "%%", "#", "##"]
        pcases = ["%d\t%s\t%s\t%s" % (b_, hx(n_), hx(o_), w_) for b_ in (0, 1) for n_ in names for o_ in ops
                  for w_ in ("-", "", hx("w"), hx("a b"), hx("*.c"), hx("}"))]
        ppart = {"name": "parameter-notation", "harness": "pexp", "driver": "pexp", "cases": pcases,
                 "nontrivial": lambda c: True, "distribution": {"nodes": len(pcases)}}
        return ([hpart] if hpart else []) + [wpart, w2part, w3part, ppart] + [{"name": "programs-x-configs", "harness": "rt", "driver": None, "cases": cases, "impl_ok": impl_ok, "chunk": 40,
                 "nontrivial": lambda c: len(c.split("\t")[0]) > 8,
                 "distribution": {"programs": len(progs), "all_256_configs_on": sum(1 for c in cases if "\tall\t" in c), "pairwise_16_on": sum(1 for c in cases if "\tall\t" not in c)}}]

    def describe(self, part, case):
        f = case.split("\t")
        if len(f) == 4:
            return "printer's notation for ParamExp{Braces:%s Name:%r Op:%r Word:%s}" % (f[0], unhx(f[1]).decode("utf-8", "replace"), unhx(f[2]).decode(), "nil" if f[3] == "-" else repr(unhx(f[3]).decode()))
        return "print/parse round trip of %r under configs %s" % (unhx(f[0]).decode("utf-8", "replace"), f[1])

    def classify(self, part, case, impl, model, judge, findings):
        import re
        if len(case.split("\t")) == 4:
            return None           # (a constructed parameter expansion, not a source text)
        src = unhx(case.split("\t")[0]).decode("utf-8", "replace")
        fid = None
        if re.search(r"\$\{#[#?-]\\\n\}", src):
            fid = "F64"       # ${#?<continuation>} is read as the parameter # with the operator ?, '${#?}' is the length of $?
        elif src.endswith("\\") and not src.endswith("\\\\"):
            fid = "F65"       # a lone backslash at the very end of the input
        if fid:
            for fd in findings:
                if fd.get("id") == fid and fd.get("status") == "open":
                    return fid
        return None

    def shrink(self, u, C):
        f = u["case"].split("\t")
        if u.get("part") in ("printed-words", "printed-words-with-parameters", "printed-words-with-braced-expansions", "parameter-notation"):
            return u
        k0 = kind(u["impl"])

        def pred(t):
            o = C.run_harness("rt", ["%s\t%s\t%s" % (hx(t), f[1], f[2])])[0]
            return kind(o) == k0
        src = G.shrink(unhx(f[0]).decode("utf-8", "replace"), pred, max_steps=600)
        c = "%s\t%s\t%s" % (hx(src), f[1], f[2])
        return dict(u, case=c, impl=C.run_harness("rt", [c])[0])

    def replay(self, payload, C):
        c = payload["case"]
        if payload.get("part") in ("printed-words", "printed-words-with-parameters", "printed-words-with-braced-expansions"):
            i = C.run_harness("rword", [c])[0]
            m, _ = C.run_driver({"printed-words": "rword", "printed-words-with-parameters": "rword2"}.get(payload.get("part"), "rword3"), [c], [i])[0]
            print("case : the word written as %r\nimpl : %s\nmodel: %s" % (unhx(c.split("\t")[0]).decode("utf-8", "replace"), i, m))
            f = m.split(" ")
            ok = m in ("unmodelled", "noarg") or (i.startswith(("error", "shape")) and int(f[3]) > 1) or (i.rstrip() == " ".join(f[:3]) and f[0] == f[2])
            if not ok:
                print("VIOLATION property=%s replay=(replayed)" % self.id)
                return 1
            print("replay: property holds on this case now")
            return 0
        o = C.run_harness("rt", [c])[0]
        print("case :", self.describe(None, c))
        print("impl :", o[:300])
        if o.startswith("FAIL:"):
            p = o.split(":")
            try:
                print("printed:", repr(unhx(p[3]).decode("utf-8", "replace")))
            except Exception:
                pass
        if (o.startswith("FAIL:") and any(k in self.kinds for k in kinds_of(o))) or o.startswith(("CRASH", "TIMEOUT")):
            print("VIOLATION property=%s replay=(replayed)" % self.id)
            return 1
        print("replay: property holds on this case now")
        return 0


class P05(Base):
    id = "C05"
    kinds = C05_KINDS
    rule = ("generated programs (grammar-directed: every compound construct, here-documents inside them, comments, reserved words directly after closing "
            "tokens, single- and multi-line forms) plus a corpus of past failures; every program under 16 Configs forming a pairwise-covering array of the 8 "
            "binary style options, every 16th program (thorough: all) under all 256 Configs; a case fails when the printed text is rejected or its skeleton "
            "differs. Non-trivial = source longer than 4 characters; distinct (program, config set) pairs counted")
    assumptions = ["same program = equal position-free skeletons with ';' and newline identified, adjacent literals merged, command grouping flattened"]


PROP = P05()
