"""C16 — pattern.Glob on materialised random trees against the abstract-file-system model and the
component-wise specification."""
import random

from common import hx, unhx

NAMES = ["a", "b", "ab", "abc", ".h", ".hid", "a.txt", "b.txt", "x*y", "q?", "[x]", "a b", "é", "日本", "-", "a+b", "(p)", "d.d", "..x", "A", "z\\w", "^c", "$d", "{e}", "a|b"]


def gen_tree(rnd):
    entries = []

    def fill(prefix, depth):
        for n in rnd.sample(NAMES, rnd.randint(1, 6)):
            path = prefix + [n]
            k = rnd.random()
            if k < 0.3 and depth < 3:
                entries.append((path, "d"))
                fill(path, depth + 1)
            elif k < 0.4:
                entries.append((path, "l"))
            else:
                entries.append((path, "f"))
    fill([], 0)
    return entries


def generalise(rnd, name):
    out = []
    for ch in name:
        k = rnd.random()
        if k < 0.15:
            out.append("?")
        elif k < 0.25:
            out.append("*")
            if rnd.random() < 0.5:
                break
        elif k < 0.33:
            out.append("[" + ch.replace("]", "\\]").replace("\\", "\\\\").replace("^", "\\^").replace("!", "\\!").replace("-", "\\-").replace("[", "\\[") + "x]")
        elif k < 0.4:
            out.append("\\" + ch)
        elif ch in "*?[\\":
            out.append("\\" + ch)
        else:
            out.append(ch)
    return "".join(out)


def gen_pattern(rnd, entries):
    path, _ = rnd.choice(entries)
    comps = []
    up = False
    for c in path:
        k = rnd.random()
        if k < 0.15:
            comps.append("*")
        elif k < 0.2 and not up:
            comps.append(".*")
            up = True
        elif k < 0.25:
            x = rnd.choice(["?", "??", "*.txt", "[ab]*", "[!a]*", "."] + ([] if up else ["..", "*/.."]))
            up = up or ".." in x
            comps.append(x)
        else:
            comps.append(generalise(rnd, c))
    sep = lambda: rnd.choice(["/", "/", "/", "//", "\\/"])
    pat = comps[0]
    for c in comps[1:]:
        pat += sep() + c
    k = rnd.random()
    if k < 0.15:
        pat += "/"
    elif k < 0.18:
        pat += "//"
    elif k < 0.2:
        pat += "\\"
    k = rnd.random()
    if k < 0.12:
        pat = "@ROOT@/" + pat
    elif k < 0.17:
        pat = "./" + pat
    elif k < 0.2:
        pat = "@ROOT@//" + pat
    elif k < 0.25:
        # an escaped slash is a slash, at the head of an absolute pattern too
        pat = "\\@ROOT@" + rnd.choice(["/", "\\/", "//"]) + pat
    return pat


def climbs(pat):
    """number of components of the pattern that can match '..' (the model has one directory above the root, holding only the root)"""
    import fnmatch
    n = 0
    for comp in pat.replace("@ROOT@", "").replace("\\/", "/").split("/"):
        try:
            if comp and fnmatch.fnmatchcase("..", comp.replace("\\", "")):
                n += 1
        except Exception:
            n += 1
    return n


def gen_pattern_bounded(rnd, entries):
    for _ in range(20):
        pat = gen_pattern(rnd, entries)
        if climbs(pat) <= 1:
            return pat
    return "*"


def mk(entries, pat):
    es = ",".join("%s:%s" % ("/".join(hx(c) for c in p), t) for p, t in entries)
    return "%s\t%s" % (es, hx(pat))


class P:
    id = "C16"
    rule = ("random directory trees (files, directories, dot files, dangling symlinks, names with pattern and regex metacharacters, multi-byte "
            "names, depth <= 4) materialised in a scratch directory; patterns generalised from the tree's own paths (?, *, brackets, escapes), "
            ".* and .. components, repeated / trailing / escaped slashes, trailing backslash, absolute and ./ forms. Non-trivial = the pattern has "
            "an unescaped wildcard; distinct (tree, pattern) pairs are counted")
    assumptions = ["the OS file system is abstracted as a tree of files, directories and dangling symlinks; os.Lstat/Stat/Open/Readdirnames are modelled by path resolution on the tree"]

    def parts(self, seed, tier, C):
        rnd = random.Random(seed)
        cases = []
        ntrees = 300 if tier == "quick" else 4000
        for _ in range(ntrees):
            entries = gen_tree(rnd)
            for _ in range(12):
                cases.append(mk(entries, gen_pattern_bounded(rnd, entries)))
            cases.append(mk(entries, rnd.choice(["*", "*/", ".*", "*/*", "nomatch*", "[", "a[", "", "*\\", "\\/", "\\//", "\\/.", "/", "\\@ROOT@", "\\@ROOT@/*", "\\@ROOT@\\/*"])))

        def cmp(c, i, m):
            return m == "unmodelled" or i == m

        def nontrivial(c):
            p = unhx(c.split("\t")[1]).decode("utf-8", "replace")
            return any(x in p.replace("\\*", "").replace("\\?", "").replace("\\[", "") for x in "*?[")
        return [{"name": "random-trees", "harness": "c16", "driver": "c16", "cases": cases, "compare": cmp, "nontrivial": nontrivial,
                 "distribution": {"trees": ntrees, "cases": len(cases)}}]

    def describe(self, part, case):
        f = case.split("\t")
        es = ["/".join(unhx(c).decode("utf-8", "replace") for c in e.split(":")[0].split("/")) + ":" + e.split(":")[1] for e in f[0].split(",") if e]
        return "Glob(%r) in tree %s" % (unhx(f[1]).decode("utf-8", "replace"), es)

    def classify(self, part, case, impl, model, judge, findings):
        return None

    def replay(self, payload, C):
        c = payload["case"]
        i = C.run_harness("c16", [c])[0]
        m, j = C.run_driver("c16", [c], [i])[0]
        print("case :", self.describe(None, c))
        print("impl :", i)
        print("model:", m)
        print("judge:", j)
        if (m != "unmodelled" and i != m) or j.startswith("bad"):
            print("VIOLATION property=C16 replay=(replayed)")
            return 1
        print("replay: property holds on this case now")
        return 0


PROP = P()
