"""C09 — layout is inert: one program structure rendered under two layouts (plain vs rich: extra blanks, tabs, comments before
newlines and on their own lines, backslash-newline between tokens, newline for ';', blank lines, optional blanks around operators)
must parse to the same skeleton, and each rendering must return exactly its own comments in order (harness handler layout)."""
import random

from common import hx, unhx
from props import parsegen as G


def render(struct_seed, layout_seed, depth, rich):
    g = G.Gen(random.Random(struct_seed), layout=random.Random(layout_seed))
    g.rich_layout = rich
    g.with_comments = rich
    g.multiline = True
    src = g.program(depth)
    return src, list(g.comments)


class P:
    id = "C09"
    rule = ("each generated program structure (depth 1-3, same generator as C02/C05) is rendered twice from the same structural random stream: once "
            "with the plain layout and once with a rich layout drawn from an independent layout stream; plus pairs of grammar derivations that share "
            "the structural stream but draw the newline tokens of every linebreak position, the ';' / newline choice of every separator and the "
            "blank / comment / continuation layout from independent streams. "
            "Non-trivial = the two renderings differ textually; distinct pairs counted")
    assumptions = ["layout choices never change the structural random stream (checked by construction of the generator: layout draws come from a separate PRNG)"]
    exhaustive = False

    def parts(self, seed, tier, C):
        rnd = random.Random(seed)
        n = 2500 if tier == "quick" else 40000
        cases = []
        for _ in range(n):
            ss = rnd.getrandbits(48)
            d = rnd.choice([1, 2, 2, 3])
            a, ca = render(ss, rnd.getrandbits(48), d, rnd.random() < 0.5)
            b, cb = render(ss, rnd.getrandbits(48), d, True)
            cases.append("%s\t%s\t%s\t%s" % (hx(a), ",".join("c" + hx(x) for x in ca), hx(b), ",".join("c" + hx(x) for x in cb)))
        import re
        fixed = []
        for a, b in [("a && b\n", "a && \\\n\nb\n"), ("a | b\n", "a | \\\n \n b\n"),
                     # (F45 at the other places where the lexer skips the line break itself)
                     ("case x in\na) b ;;\nesac\n", "case x in \\\n\na) b ;;\nesac\n"), ("case x in esac\n", "case x \\\n\nin esac\n"),
                     ("for i; do a; done\n", "for i; \\\n\ndo a; done\n"), ("f() { a; }\n", "f() \\\n\n{ a; }\n"),
                     ("case x in a) b ;; c) d ;; esac\n", "case x in a) b ;; \\\n\nc) d ;; esac\n"),
                     ("a b\n", "a \\\n b\n"), ("a;b\n", "a\nb\n"), ("if a; then b; fi\n", "if a # c\nthen\n\n b\nfi\n"), ("a|b\n", "a |\n\n b\n"),
                     ("a && b\n", "a && # c\n b\n"), ("{ a; }\n", "{\n a\n}\n"), ("for i in 1 2; do a; done\n", "for i in 1 2\ndo\na\ndone\n"),
                     # a word directly before a redirection operator: only a word that is one all-digit literal is an IO number
                     ("echo 2\"\">x\n", "echo 2\"\" >x\n"), ("echo 1$a>x\n", "echo 1$a >x\n"), ("echo 3$(a)<y\n", "echo 3$(a) <y\n"), ("echo 4`a`>>z\n", "echo 4`a` >>z\n"),
                     ("echo 5$((1))>x\n", "echo 5$((1)) >x\n"), ("echo a2>x\n", "echo a2 >x\n"), ("echo 2a>x\n", "echo 2a >x\n"), ("echo '2'>x\n", "echo '2' >x\n"),
                     ("echo \\2>x\n", "echo \\2 >x\n"), ("echo 2''<x\n", "echo 2'' <x\n"), ("echo ${a}2>x\n", "echo ${a}2 >x\n"), ("echo 22\"a\">&2\n", "echo 22\"a\" >&2\n"),
                     ("echo 2>x\n", "echo 2> x\n"), ("echo 2 >x\n", "echo 2  > x\n"), ("echo 12<<E\nb\nE\n", "echo 12<< E\nb\nE\n")]:
            cb = re.findall(r"#([^\n]*)", b)
            fixed.append("%s\t\t%s\t%s" % (hx(a), hx(b), ",".join("c" + hx(x) for x in cb)))

        # comments inside substitutions, in every place a substitution can stand (arithmetic expansions included)
        for ctx in ("echo $(@)", "echo `@`", "echo $(( $(@) + 1 ))", "echo \"$(@)\"", "echo ${x:-$(@)}", "x=$(@) y", "echo $(( `@` ))", "cat <<E\n$(@)\nE",
                    "echo $(( $(( $(@) )) ))", "echo \"$(( $(@) ))\"", "echo $(echo $(( $(@) )))", "cat <<E\n$(( $(@) ))\nE", "echo ${x:-$(( $(@) ))}", "x=$(( $(@) * `@` ))",
                    "echo $(( $(@) )) $(@)"):
            for la, lb in (("a\n", "a #c1\n"), ("a\n", "a # c 1\n# c2\n"), ("a; b\n", "a #1\nb #2\n"), ("a\n", "#0\na\n")):
                b = ctx.replace("@", lb) + "\n"
                # (comments written inside a here-document body's substitution are comments of that substitution as well)
                fixed.append("%s\t\t%s\t%s" % (hx(ctx.replace("@", la) + "\n"), hx(b), ",".join("c" + hx(x) for x in re.findall(r"#([^\n]*)", b))))

        # derivations: the same structure with independent choices of newline tokens at every linebreak position and of ';' versus
        # newline separators, rendered under independent blank/comment/continuation layouts
        from props import dgen as D
        dcases = []
        for _ in range(n):
            ss = rnd.getrandbits(48)
            d = rnd.choice([1, 2, 2, 3])
            pair = []
            for _k in range(2):
                lay = random.Random(rnd.getrandbits(48))
                g = D.DGen(random.Random(ss), layout=lay, nl=random.Random(rnd.getrandbits(48)))
                text, comments, _hs = D.render(g.program(d), lay, rich=True)
                pair.append((text, comments))
            (a, ca), (b, cb) = pair
            dcases.append("%s\t%s\t%s\t%s" % (hx(a), ",".join("c" + hx(x) for x in ca), hx(b), ",".join("c" + hx(x) for x in cb)))

        # the layout model (Lex/Layout.v, extracted): every string over the layout alphabet between two tokens, in argument position
        # and at the line break after && || |; the model says what the scanner makes of it (joins / separates / ends the line /
        # continues the command, and which comments), the implementation must parse the text like the canonical rendering
        import itertools
        alpha = [" ", "\t", "\\\n", "#c", "# d e", "\n", "#", "#x\\"]
        L = 4 if tier == "quick" else 5
        texts = ["".join(t) for n_ in range(0, L + 1) for t in itertools.product(alpha, repeat=n_)]
        gcases = []
        for ctx, pre in (("arg", "a"), ("lb", "a &&"), ("lb", "a |"), ("lb", "x || a ||")):
            for t in texts:
                gcases.append((ctx, pre, t))
        gm = C.run_driver("gap", ["%s\t%s" % (ctx, hx(t + "b\n")) for ctx, pre, t in gcases])
        lay_cases, lay_expect = [], []
        for (ctx, pre, t), (m, _j) in zip(gcases, gm):
            k, cs, rest = m.split(":")
            rest = unhx(rest).decode("utf-8", "replace")
            src = pre + t + "b\n"
            if k == "J":
                canon = pre + rest
            elif k == "B":
                canon = pre + " " + rest
            elif k in ("L", "E"):
                canon = pre + "\n" + rest
            elif k == "K":
                canon = pre + " " + rest
            else:
                canon = None
            if canon is None:
                # the model says the command ends where one must begin: the implementation must reject the text too
                lay_cases.append("%s\t%s\t%s\t" % (hx(src), cs, hx("a\n")))
                lay_expect.append("reject")
            elif rest in ("b\n", ""):
                lay_cases.append("%s\t%s\t%s\t" % (hx(src), cs, hx(canon)))
                lay_expect.append("same")
            else:
                # the model stopped before the next token (a line continuation after a newline): the rest is scanned by the next
                # call; only the program is compared, the comments of the rest are not predicted by one application of the model
                lay_cases.append("%s\t*\t%s\t*" % (hx(src), hx(canon)))
                lay_expect.append("same")
        expect = dict(zip(lay_cases, lay_expect))

        def gap_ok(c, o):
            return o.startswith("skip:0:") if expect.get(c) == "reject" else o == "ok"
        gap_part = {"name": "layout-model", "harness": "layout", "driver": None, "cases": lay_cases, "impl_ok": gap_ok,
                    "nontrivial": lambda c: True,
                    "distribution": {"strings_over_layout_alphabet_le": L, "contexts": 4, "cases": len(lay_cases),
                                     "model_says_rejected": sum(1 for e in lay_expect if e == "reject")}}

        def impl_ok(c, o):
            return o.startswith(("ok", "skip"))
        # a derivation is a sentence by construction (C02 checks that): a rendering that is rejected is a failure, not a skip
        return [gap_part, {"name": "derivation-layout-pairs", "harness": "layout", "driver": None, "cases": dcases, "impl_ok": lambda c, o: o == "ok",
                 "nontrivial": lambda c: c.split("\t")[0] != c.split("\t")[2],
                 "distribution": {"pairs": len(dcases)}},
                {"name": "fixed-pairs", "harness": "layout", "driver": None, "cases": fixed, "impl_ok": lambda c, o: o == "ok",
                 "nontrivial": lambda c: True, "distribution": {"pairs": len(fixed)}},
                {"name": "layout-pairs", "harness": "layout", "driver": None, "cases": cases, "impl_ok": impl_ok,
                 "nontrivial": lambda c: c.split("\t")[0] != c.split("\t")[2],
                 "distribution": {"pairs": len(cases)}}]

    def describe(self, part, case):
        f = case.split("\t")
        return "layouts %r vs %r" % (unhx(f[0]).decode("utf-8", "replace"), unhx(f[2]).decode("utf-8", "replace"))

    def classify(self, part, case, impl, model, judge, findings):
        import re
        f = case.split("\t")
        for src in (unhx(f[0]).decode("utf-8", "replace"), unhx(f[2]).decode("utf-8", "replace")):
            # F45: a line continuation directly followed by an empty or blank line, at a line break after && || |
            if re.search(r"(&&|\|\||\||\bin|\bcase x|;|;;|\(\))[ \t]*\\\n[ \t]*\n", src) and (impl.startswith("skip:") or impl.startswith("FAIL")):
                for fd in findings:
                    if fd.get("id") == "F45" and fd.get("status") == "open":
                        return "F45"
        return None

    def replay(self, payload, C):
        c = payload["case"]
        o = C.run_harness("layout", [c])[0]
        print("case :", self.describe(None, c))
        print("impl :", o[:300])
        if not o.startswith(("ok", "skip")):
            print("VIOLATION property=C09 replay=(replayed)")
            return 1
        print("replay: property holds on this case now")
        return 0


PROP = P()
