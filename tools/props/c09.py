"""C09 — layout is inert: one program structure rendered under two layouts (plain vs rich: extra blanks, tabs, comments before
newlines and on their own lines, backslash-newline between tokens, newline for ';', blank lines, optional blanks around operators)
must parse to the same skeleton, and each rendering must return exactly its own comments in order (harness handler layout)."""
import random

from common import hx, unhx
from props import parsegen as G


def render(struct_seed, layout_seed, depth, rich):
    g = G.Gen(random.Random(struct_seed), layout=random.Random(layout_seed))
    g.rich_layout = rich
    g.with_comments = rich
    g.multiline = True
    src = g.program(depth)
    return src, list(g.comments)


class P:
    id = "C09"
    rule = ("each generated program structure (depth 1-3, same generator as C02/C05) is rendered twice from the same structural random stream: once "
            "with the plain layout and once with a rich layout drawn from an independent layout stream; plus pairs of grammar derivations that share "
            "the structural stream but draw the newline tokens of every linebreak position, the ';' / newline choice of every separator and the "
            "blank / comment / continuation layout from independent streams. "
            "Non-trivial = the two renderings differ textually; distinct pairs counted")
    assumptions = ["layout choices never change the structural random stream (checked by construction of the generator: layout draws come from a separate PRNG)"]
    exhaustive = False

    def parts(self, seed, tier, C):
        rnd = random.Random(seed)
        n = 2500 if tier == "quick" else 40000
        cases = []
        for _ in range(n):
            ss = rnd.getrandbits(48)
            d = rnd.choice([1, 2, 2, 3])
            a, ca = render(ss, rnd.getrandbits(48), d, rnd.random() < 0.5)
            b, cb = render(ss, rnd.getrandbits(48), d, True)
            cases.append("%s\t%s\t%s\t%s" % (hx(a), ",".join("c" + hx(x) for x in ca), hx(b), ",".join("c" + hx(x) for x in cb)))
        fixed = []
        for a, b in [("a && b\n", "a && \\\n\nb\n"), ("a | b\n", "a | \\\n \n b\n"),
                     ("a b\n", "a \\\n b\n"), ("a;b\n", "a\nb\n"), ("if a; then b; fi\n", "if a # c\nthen\n\n b\nfi\n"), ("a|b\n", "a |\n\n b\n"),
                     ("a && b\n", "a && # c\n b\n"), ("{ a; }\n", "{\n a\n}\n"), ("for i in 1 2; do a; done\n", "for i in 1 2\ndo\na\ndone\n")]:
            import re
            cb = re.findall(r"#([^\n]*)", b)
            fixed.append("%s\t\t%s\t%s" % (hx(a), hx(b), ",".join("c" + hx(x) for x in cb)))

        # derivations: the same structure with independent choices of newline tokens at every linebreak position and of ';' versus
        # newline separators, rendered under independent blank/comment/continuation layouts
        from props import dgen as D
        dcases = []
        for _ in range(n):
            ss = rnd.getrandbits(48)
            d = rnd.choice([1, 2, 2, 3])
            pair = []
            for _k in range(2):
                lay = random.Random(rnd.getrandbits(48))
                g = D.DGen(random.Random(ss), layout=lay, nl=random.Random(rnd.getrandbits(48)))
                text, comments, _hs = D.render(g.program(d), lay, rich=True)
                pair.append((text, comments))
            (a, ca), (b, cb) = pair
            dcases.append("%s\t%s\t%s\t%s" % (hx(a), ",".join("c" + hx(x) for x in ca), hx(b), ",".join("c" + hx(x) for x in cb)))

        def impl_ok(c, o):
            return o.startswith(("ok", "skip"))
        # a derivation is a sentence by construction (C02 checks that): a rendering that is rejected is a failure, not a skip
        return [{"name": "derivation-layout-pairs", "harness": "layout", "driver": None, "cases": dcases, "impl_ok": lambda c, o: o == "ok",
                 "nontrivial": lambda c: c.split("\t")[0] != c.split("\t")[2],
                 "distribution": {"pairs": len(dcases)}},
                {"name": "fixed-pairs", "harness": "layout", "driver": None, "cases": fixed, "impl_ok": lambda c, o: o == "ok",
                 "nontrivial": lambda c: True, "distribution": {"pairs": len(fixed)}},
                {"name": "layout-pairs", "harness": "layout", "driver": None, "cases": cases, "impl_ok": impl_ok,
                 "nontrivial": lambda c: c.split("\t")[0] != c.split("\t")[2],
                 "distribution": {"pairs": len(cases)}}]

    def describe(self, part, case):
        f = case.split("\t")
        return "layouts %r vs %r" % (unhx(f[0]).decode("utf-8", "replace"), unhx(f[2]).decode("utf-8", "replace"))

    def classify(self, part, case, impl, model, judge, findings):
        import re
        f = case.split("\t")
        for src in (unhx(f[0]).decode("utf-8", "replace"), unhx(f[2]).decode("utf-8", "replace")):
            # F45: a line continuation directly followed by an empty or blank line, at a line break after && || |
            if re.search(r"(&&|\|\||\|)[ \t]*\\\n[ \t]*\n", src) and (impl.startswith("skip:") or impl.startswith("FAIL")):
                for fd in findings:
                    if fd.get("id") == "F45" and fd.get("status") == "open":
                        return "F45"
        return None

    def replay(self, payload, C):
        c = payload["case"]
        o = C.run_harness("layout", [c])[0]
        print("case :", self.describe(None, c))
        print("impl :", o[:300])
        if not o.startswith(("ok", "skip")):
            print("VIOLATION property=C09 replay=(replayed)")
            return 1
        print("replay: property holds on this case now")
        return 0


PROP = P()
