"""C07 — one call consumes exactly one complete command: sequences of generated command lines concatenated into one
stream, every boundary checked through a custom RuneScanner and a strings.Reader (harness handler stream)."""
import random

from common import hx, unhx
from props import parsegen as G

CORPUS = [["a\n", "b\n"], ["a # c\n", "b\n"], ["cat <<E\nx\nE\n", "b\n"], ["a |\nb\n", "c\n"], ["\n", "a\n"], ["a\n", "\n", "\n", "b"], ["if a\nthen b\nfi\n", "c\n"],
          ["a\\\nb\n", "c\n"], ["a;\n", "b\n"], ["a &\n", "b\n"], ["{ a\n}\n", "}\n".replace("}", "b")], ["a <<E <<F\n1\nE\n2\nF\n", "z\n"], ["x=$(a\nb)\n", "c\n"],
          ["a '\n' b\n", "c\n"], ["for i in 1\ndo a\ndone\n", "b\n"], ["case x in\na) b;;\nesac\n", "c\n"], ["  \n", "a\n"], ["a; # c\n", "b\n"], ["a\n", "b"]]


TEMPLATES = ["cat %s\n", "cat %s %s\n", "cat %s %s %s\n", "cat %s; cat %s # c\n", "{ cat %s; cat 3%s; }\n", "cat %s | cat %s &&\n\x00  echo x\n", "cat %s &&\n\x00cat %s\n",
             "if cat %s; then cat %s; fi\n", "x=$(cat %s\n\x00) y %s\n",
             # a here-document pending at a newline that a compound-command header reads itself
             "cat %s; for i\n\x00do x; done\n", "cat %s | for i\n\x00do cat %s; done\n", "cat %s; for i in 1 2\n\x00do x; done\n", "cat %s; for i\n\x00in 1; do x; done\n",
             "cat %s; for i in 1;\n\x00do x; done\n", "cat %s; for i;\n\x00do x; done\n", "cat %s; while a\n\x00do b; done\n", "cat %s; if a\n\x00then b; fi\n",
             "cat %s; case x in\n\x00a) b;; esac\n", "cat %s; case x\n\x00in a) b;; esac\n", "cat %s; f()\n\x00{ a; }\n", "cat %s; case x in a)\n\x00b;; esac\n",
             "cat %s; case x in a) b;;\n\x00esac\n", "cat %s; {\n\x00a; }\n", "cat %s; (\n\x00a )\n", "cat %s; ! \\\n a\n", "cat %s; if a; then\n\x00b; else\n c %s; fi\n",
             # a comment or a line continuation at a line break that the lexer skips itself, here-documents pending
             "cat %s | # c\n\x00cat\n", "cat %s && # note\n\x00cat %s\n", "cat %s ||#\n\x00b\n", "cat %s | \\\n cat\n", "cat %s &&\\\n\tcat %s\n",
             "cat %s | \\\n # c\n\x00cat\n", "case x in a) cat %s ;; # c\n\x00esac\n", "case x in a) cat %s ;; \\\n esac\n"]


def heredoc_cmd(rnd):
    """A command line with one to three here-documents (\\x00 in a template = the place where the pending bodies are read)."""
    t = rnd.choice(TEMPLATES)
    k = t.count("%s")
    delims = rnd.sample(["A", "B", "E", "\u00e9", "EOF", "x1"], k)
    ops, bodies = [], []
    for d in delims:
        q = rnd.choice(["", "", "'", "\\", '"', "mid"])
        dash = rnd.random() < 0.3
        w = {"": d, "'": "'%s'" % d, "\\": "\\" + d, '"': '"%s"' % d, "mid": d[0] + "''" + d[1:]}[q]
        ops.append(rnd.choice(["", "", "", "3", "0", "12"]) + ("<<-" if dash else "<<") + w)
        tab = "\t" if dash and rnd.random() < 0.7 else ""
        lines = []
        for _ in range(rnd.randint(0, 3)):
            if q:
                lines.append(rnd.choice(["x", "$y", "x\\", "$(echo", "`", "${z:-", " " + d, d + " ", "\\" + d]))
            else:
                lines.append(rnd.choice(["x", "$y", "y\\\n" + d, "\\\n" + d + " \\\n" + d, "$(echo\n" + d + "\n)", "`echo\n" + d + "\n`", "${z:-\n" + d + "\n}",
                                         " " + d, d + " ", "\\" + d, "\\\\", "\u65e5\u672c\\\n" + d]))
        bodies.append("".join(tab + l + "\n" for l in lines) + tab + d + "\n")
    text = t % tuple(ops)
    # bodies are read after the newline that follows their operators
    if "\x00" in text:
        head, tail = text.split("\x00")
        n1 = head.count("<<")
        return head + "".join(bodies[:n1]) + tail + "".join(bodies[n1:])
    return text + "".join(bodies)


class P:
    id = "C07"
    rule = ("sequences of 2-6 generated complete command lines (single-line, multi-line compound, here-documents incl. several per line, trailing comments, "
            "line continuations, blank lines, with and without a final newline; here-document delimiter words holding each of 19 expansion notations with sibling spellings in the body) concatenated into one stream and read by successive ParseCommands calls "
            "through a custom io.RuneScanner and a strings.Reader; after every call the scanner offset must equal the end of that command's text and the "
            "result must equal the parse of the text alone; blank lines must yield empty results. Non-trivial = at least one multi-line element; distinct sequences counted")
    assumptions = ["only sequences whose elements parse without error on their own are judged (others are skipped and counted)"]
    exhaustive = False

    def parts(self, seed, tier, C):
        rnd = random.Random(seed)
        g = G.Gen(rnd)
        g.with_comments = True
        cases = [",".join(hx(t) for t in seq) for seq in CORPUS]
        n = 2500 if tier == "quick" else 40000
        for _ in range(n):
            seq = []
            for _ in range(rnd.randint(2, 6)):
                k = rnd.random()
                if k < 0.1:
                    seq.append(rnd.choice(["\n", " \n", "\t\n"]))
                else:
                    g.pending = []
                    seq.append(g.andor(rnd.choice([0, 1, 2, 2])) + g.nl())
            if rnd.random() < 0.2 and seq[-1].endswith("\n") and seq[-1].strip() and "<<" not in seq[-1]:
                seq[-1] = seq[-1][:-1]
            cases.append(",".join(hx(t) for t in seq))

        # several here-documents per command line, quoted and unquoted delimiters mixed in every order, bodies holding continued
        # lines and multi-line expansions with lines that look like the delimiter
        hn = 600 if tier == "quick" else 8000
        hcases = []
        for _ in range(hn):
            seq = [heredoc_cmd(rnd) for _ in range(rnd.randint(1, 3))] + [rnd.choice(["echo next\n", "\n", "echo last", "a |\nb\n"])]
            rnd.shuffle(seq)
            seq = [t if t.endswith("\n") else t + "\n" for t in seq]
            if "<<" not in seq[-1] and seq[-1].strip() and rnd.random() < 0.3:
                seq[-1] = seq[-1][:-1]
            hcases.append(",".join(hx(t) for t in seq))

        # delimiter words holding expansions (the lexer compares delimiter lines in printed form: every spelling the printer
        # has for an expansion must come back as it was written); body lines spelled like the sibling notations must not end the body
        EXP = ["${x#}", "${x%}", "${x##}", "${x%%}", "${#x}", "$x", "${x:-y}", "${x#y}", "${x:-}", "${x-}", "${x:+}", "${x=}", "${x?}", "$(a)", "`a`", "$((1))", "${#}", "${##}", "$#"]
        for d in EXP:
            for sib in EXP:
                if sib == d:
                    continue
                for op, line in (('"%s"' % d, d), ("'%s'" % d, d), ("E" + d, "E" + d), ('E"%s"' % d, "E" + d)):
                    sl = sib if line == d else "E" + sib
                    if "`" in sl and op[0] not in "\"'":
                        continue      # (an unquoted body scans the backquotes of the sibling line: keep those bodies plain)
                    for dash in ("<<", "<<-"):
                        t = "cat %s%s\n%s\nx\n%s\n" % (dash, op, sl, line)
                        hcases.append(",".join(hx(z) for z in (t, "echo next\n")))

        def impl_ok(c, o):
            return o.startswith(("ok", "skip"))
        # (these lines are complete commands by construction: one that is rejected on its own is a failure, not a skip)
        return [{"name": "heredoc-streams", "harness": "stream", "driver": None, "cases": hcases, "impl_ok": lambda c, o: o.startswith("ok"),
                 "nontrivial": lambda c: True, "distribution": {"sequences": len(hcases)}},
                {"name": "streams", "harness": "stream", "driver": None, "cases": cases, "impl_ok": impl_ok,
                 "nontrivial": lambda c: any(unhx(h).decode("utf-8", "replace").count("\n") > 1 for h in c.split(",")),
                 "distribution": {"sequences": len(cases)}}]

    def describe(self, part, case):
        return "stream of %r" % [unhx(h).decode("utf-8", "replace") for h in case.split(",")]

    def classify(self, part, case, impl, model, judge, findings):
        return None

    def shrink(self, u, C):
        seq = u["case"].split(",")
        k0 = u["impl"].split(":")[1] if u["impl"].startswith("FAIL") else None
        changed = True
        while changed and len(seq) > 1:
            changed = False
            for i in range(len(seq)):
                t = seq[:i] + seq[i + 1:]
                o = C.run_harness("stream", [",".join(t)])[0]
                if o.startswith("FAIL") and o.split(":")[1] == k0:
                    seq = t
                    changed = True
                    break
        c = ",".join(seq)
        return dict(u, case=c, impl=C.run_harness("stream", [c])[0])

    def replay(self, payload, C):
        c = payload["case"]
        o = C.run_harness("stream", [c])[0]
        print("case :", self.describe(None, c))
        print("impl :", o[:300])
        if not o.startswith(("ok", "skip")):
            print("VIOLATION property=C07 replay=(replayed)")
            return 1
        print("replay: property holds on this case now")
        return 0


PROP = P()
