from props.c05 import Base, C18_KINDS


class P18(Base):
    id = "C18"
    kinds = C18_KINDS
    rule = ("same programs and Config sets as C05; a case fails when print(parse(print(t))) differs from print(t), two prints of one tree differ, the deep "
            "dump of the tree (positions and separators included) changes across Fprint, or a writer failing after k bytes (every k below the output "
            "length, first Config of the set) is not reported as an error. Non-trivial = source longer than 4 characters")
    assumptions = ["purity is observed through a reflective dump of every field reachable from the commands"]


PROP = P18()
