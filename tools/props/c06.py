"""C06 — results are schedule-independent; nothing races or keeps running after return (harness handler sched): each input is run
unperturbed and under N hook-driven perturbation seeds (yields and sleeps of deterministic pseudo-random length at every
synchronisation point: Lex before/after receive, emit before/after send, here-document push / pop-wait, error(), lexer exit, join),
under GOMAXPROCS in {1,2,16}; every run must return the same (commands, comments, error, consumed input) resp. (value, error, store);
no goroutine started by the call may be alive at return and the reader must not be touched afterwards; a sample (thorough: everything)
is repeated with the race detector."""
import os
import random

from common import hx, unhx
from props import parsegen as G

PARSE_CORPUS = ["a b c\n", "a | | b c\n", "a | | $(\n", "a 'unterminated\n", "a | | 'unterminated\n", "if a; then b; fi\n", "if a; fi 'x\n", "cat <<E\nbody\nE\n", "cat <<E |\nx\nE\nb\n",
                "cat <<E | | b\nx\nE\n", "a $(b | | c) d\n", "a $(b) `c` $((1+2))\n", "a `b 'c` d\n", "x=$(cat <<E\nq\nE\n)\n", "a; b; c; d; e; f\n", "a &&\nb ||\nc\n", "( a; b ) | { c; }\n",
                "a ) b 'c\n", "a ;; b \"c\n", "for i in 1 2 3; do a; done\n", "for 1x in a; do b; done 'q\n", "f() { a; }\n", "break() { a; } 'q\n", "a <<E <<F\n1\nE\n2\nF\n",
                "a <<E ) 'q\nx\nE\n", "${x\n",
                # the lexer's error lies on a later line, at a smaller / equal / larger column than the token the parser rejects
                "   ( ) 'aaa\n'\"zzz", "      a | | 'x\ny' \"q\n", "     a ) b \"c\nd\" 'e\n", "a ) 'b\n          c' \"d\n", " ;\n'q\n", "  a ;; \"b\n c\" ${x\n", "      ( ) $(\n'", "    ) `a\n'b`\n", "a ${x:-$(b | |)} c\n", "((1+2\n", "a # c\nb\n", "case x in a) b;; esac\n", "case x in a) b ;; ) 'q\n"]
EVAL_CORPUS = [("1+2", {}), ("(1=2)+(x=5)", {}), ("x = 1 / 0", {}), ("y = (x <= y)", {"x": "abc"}), ("1 $ 2", {}), ("(1=2) $", {}), ("x++ + $ + y++", {}), ("a = b = c = 3", {}),
               ("1 +", {}), ("1 + (2", {}), ("x -= (7 / y)", {"y": "abc", "x": "010"}), ("0 && (x = 1)", {}), ("++0--", {}), ("(x=1) + (y=2) + (1=z) + (w=4)", {}), ("1 << -1", {}),
               ("x = 08", {}), ("$", {}), ("", {}), ("((((((1))))))", {}), ("x = y = 1/0", {})]


class P:
    id = "C06"
    rule = ("inputs: valid programs, one syntax error, a parser error followed by a later lexer error, here-documents (incl. with a failing parser), nested "
            "command substitutions, truncated constructs, lexer errors on a later line than the parser's, two errors inside the text of one alias; arithmetic expressions with several faults and assignments, invalid characters; generated "
            "programs and their mutants; each under N perturbation seeds (quick 12, thorough 48) x GOMAXPROCS {1,2,16}. Non-trivial = input with >= 3 "
            "tokens; distinct (input, GOMAXPROCS) pairs counted")
    assumptions = ["interleavings are forced by perturbation (yield / sleep) at the hook points, not enumerated exhaustively; exhaustive interleavings are covered by the protocol model's theorems",
                   "the race detector build (go build -race) needs cgo; when it cannot be built that part is absent and the evidence says so"]
    needs_race = True
    exhaustive = False

    def parts(self, seed, tier, C):
        rnd = random.Random(seed)
        g = G.Gen(rnd)
        nseeds = 12 if tier == "quick" else 48
        progs = [g.program(rnd.choice([1, 2])) for _ in range(60 if tier == "quick" else 400)]
        muts = [G.mutate_tokens(rnd, p) for p in progs]
        # inputs that end without a newline, in the middle of a construct or of a here-document region, alone and after a
        # parser-side error: both goroutines have something to report at the end of input
        trunc = [p[: rnd.randint(1, len(p))] for p in progs[:30]]
        hd = G.heredoc_truncations()
        trunc += rnd.sample(hd, 25 if tier == "quick" else len(hd))
        trunc += [t + x for t in ["cat <<E", "cat <<E <<F\n1\nE", "a | | cat <<E", "cat <<E | |", "if a; then cat <<E"] for x in ["", " ", " | |", "\n", "\nq"]]
        pc = ["p\t%s\t\t%d" % (hx(s), nseeds) for s in PARSE_CORPUS + progs + muts + trunc]
        # a source that starts failing after a parser-side error: the read error and the syntax error are reported by different goroutines
        faulty = ["a | | ", "a && | # comment\nx", "cat <<E | |\nbody\nE\n", "a | | $(b c)", "echo `x=1 a | | `", "echo $(x=1 a && | #c\n)", "if a; then ) b c d\n",
                  "case a in a) ;; esac\n", "a ;; b c\n", "for 1 in a b c; do :; done\n", "{ a; } } more words here\n"] + muts[:25]
        for src in faulty:
            for k in sorted(set(range(0, len(src) + 1, max(1, len(src) // 12)))):
                pc.append("p\t%s\t%d\t%d" % (hx(src), k, nseeds))
        # two errors at one position: inside the text of an alias every token has the position of the alias word
        for al, srcs in (({"foo": "; '"}, ["foo", "foo a", "x; foo b c", "foo " + "a" * 3000]), ({"p": "a | | 'q", "r": ") \"x"}, ["p", "p z", "r", "b; r", "p\nr\n"]),
                         ({"e": "echo ", "b": "| | ${x"}, ["e b", "e b c", "e e b"]),
                         # a parser error followed by an unterminated substitution inside one alias: the nested lexer's errors are handed over
                         ({"p": "a | | $(", "q": "a | | `b", "u": "b ) $( c | |", "w": "a | | $(" + " " * 3000 + "x"}, ["p", "x; p", "p\n", "q", "u", "x | u", "w", "p p"])):
            alx = ",".join("%s=%s" % (hx(k), hx(v)) for k, v in al.items())
            for src in srcs:
                pc.append("a\t%s\t%s\t%d" % (hx(src), alx, nseeds))
        ec = ["e\t%s\t%s\t%d" % (hx(e), ",".join("%s=%s" % (hx(k), hx(v)) for k, v in vs.items()), nseeds) for e, vs in EVAL_CORPUS]
        for _ in range(60 if tier == "quick" else 600):
            toks = [rnd.choice(["x", "y", "1", "0", "(", ")", "+", "=", "/", "++", "$", "&&", "?", ":", "08", "abc", "-"]) for _ in range(rnd.randint(1, 9))]
            ec.append("e\t%s\t%s\t%d" % (hx(" ".join(toks)), "%s=%s" % (hx("abc"), hx("zz")), nseeds))
        parts = []

        def ok(c, o):
            return o.startswith("ok")
        for procs in ("1", "2", "16"):
            env = dict(os.environ, GOMAXPROCS=procs)
            parts.append({"name": "parse-gomaxprocs%s" % procs, "harness": "sched", "driver": None, "cases": pc, "env": env, "impl_ok": ok, "chunk": 20,
                          "nontrivial": lambda c: len(unhx(c.split("\t")[1]).split()) >= 3, "distribution": {"inputs": len(pc), "seeds": nseeds}})
            parts.append({"name": "eval-gomaxprocs%s" % procs, "harness": "sched", "driver": None, "cases": ec, "env": env, "impl_ok": ok, "chunk": 20,
                          "nontrivial": lambda c: len(unhx(c.split("\t")[1]).split()) >= 3, "distribution": {"inputs": len(ec), "seeds": nseeds}})
        if os.path.exists(os.path.join(C.BUILD, "harness_race")):
            env = dict(os.environ, GOMAXPROCS="4", GORACE="halt_on_error=1 exitcode=66")
            k = (100, 40) if tier == "quick" else (len(pc), len(ec))
            parts.append({"name": "race-detector", "harness": "sched", "driver": None, "cases": pc[:k[0]] + ec[:k[1]], "env": env, "impl_ok": ok, "chunk": 10,
                          "exe": os.path.join(C.BUILD, "harness_race"), "distribution": {"inputs": k[0] + k[1]}})
        return parts

    def describe(self, part, case):
        f = case.split("\t")
        return "%s of %r under %s perturbation seeds [%s]" % ("ParseCommands" if f[0] == "p" else "Eval", unhx(f[1]).decode("utf-8", "replace"), f[3], part)

    def classify(self, part, case, impl, model, judge, findings):
        return None

    def replay(self, payload, C):
        c = payload["case"]
        part = payload.get("part", "")
        env = dict(os.environ, GOMAXPROCS=part.rsplit("procs", 1)[-1] if "procs" in part else "2")
        o = C.run_harness("sched", [c], env=env)[0]
        print("case :", self.describe(part, c))
        print("impl :", o[:600])
        if not o.startswith("ok"):
            print("VIOLATION property=C06 replay=(replayed)")
            return 1
        print("replay: property holds on this case now")
        return 0


PROP = P()
