"""C10 — a failing source reader is reported as that failure: every single-fault position of generated programs
and short strings, through a fault-injecting io.RuneScanner."""
import random

from common import hx, unhx
from props import parsegen as G


def fields(out):
    return dict(x.split("=", 1) for x in out.split(" ")[1:]) if out.startswith("ok ") else {}


def impl_ok(case, out):
    if not out.startswith("ok "):
        return False
    f = fields(out)
    if f.get("F") == "1":
        return f["E"] == "read"          # the failing read was reached: the read error must be returned
    return f["E"] != "read"              # never reached: no read error may be invented


class P:
    id = "C10"
    exhaustive = True
    rule = ("for every generated program, every corpus string and every string of <= 3 significant characters: every rune index k in [0,len] at "
            "which the RuneScanner starts failing (the complete set of single-fault positions); the harness records whether the failing read was "
            "actually invoked; if it was, the returned error must be (errors.Is) the injected one. Non-trivial = fault index >= 1; distinct "
            "(input, index) pairs counted")
    assumptions = ["only the io.RuneScanner source kind carries the fault injector (io.Reader sources go through bufio, which forwards the same error)"]

    def parts(self, seed, tier, C):
        rnd = random.Random(seed)
        g = G.Gen(rnd)
        n = 250 if tier == "quick" else 3000
        srcs = [g.program(rnd.choice([1, 2, 2, 3])) for _ in range(n)]
        srcs += [";", "a;b", "a && b", "a |\nb", "cat <<E\nx\nE\n", "$(a)", "`a`", "${x:-y}", "a\\\nb", "# c\na", "a;;", "a>b", "a>&2", "((1))", "$((1))",
                 "'a'", '"a"', "a <<-E\n\tE\n", "if a; then b; fi", "a&&", "!a", "{ a; }", "(a)"]
        # here-documents inside substitutions, inside alias-free compound commands and at line breaks; more text after the delimiter word
        # on the operator's line (the fault then falls between the announcement and the body)
        srcs += G.heredoc_corpus()
        for inner in ("cat <<E >f\nb\nE\n", "cat <<E | tr a b\nb\nE\n", "a <<E <<F\n1\nE\n2\nF\n", "cat <<E ;\nb\nE\n", "cat <<-E && c\n\tb\n\tE\n", "cat <<'E' \n$x\nE\n"):
            srcs += ["echo $(" + inner + ")\n", "x=`" + inner + "` y\n", "echo \"$(" + inner + ")\" z\n", "{ " + inner + "}\n", "echo $(( $(" + inner + ") + 1 ))\n",
                     "echo ${x:-$(" + inner + ")}\n", "a | " + inner, "if " + inner + "then :; fi\n"]
        srcs += list(G.strings_upto(G.ALPHA1, 2 if tier == "quick" else 3))
        cases = []
        for s in srcs:
            for k in range(0, len(s) + 1):
                cases.append(G.pcase(s, kind="c", fail_at=k))
        return [{"name": "single-fault-positions", "harness": "parse", "driver": None, "cases": cases, "impl_ok": impl_ok,
                 "nontrivial": lambda c: c.split("\t")[3] not in ("", "0"),
                 "distribution": {"inputs": len(srcs), "cases": len(cases)}}]

    def describe(self, part, case):
        return G.describe(case)

    def classify(self, part, case, impl, model, judge, findings):
        return None

    def replay(self, payload, C):
        c = payload["case"]
        i = C.run_harness("parse", [c])[0]
        print("case :", G.describe(c))
        print("impl :", i[:400])
        if not impl_ok(c, i):
            print("VIOLATION property=C10 replay=(replayed)")
            return 1
        print("replay: property holds on this case now")
        return 0


PROP = P()
