"""C14 — field splitting: Expand in the default mode (pathname expansion disabled) against the
splitter model (correspondence) and the cut-at-unquoted-IFS specification (judge)."""
import itertools
import random

from common import hx, unhx
from props import xpgen as X

IFS_SETS = [("unset", None), ("default", " \t\n"), ("space-comma", " ,"), ("comma", ","), ("colon", ":"), ("empty", ""), ("multibyte", "é "),
            ("digit", "5 ")]     # the length of the 5-character value below is an IFS character


def seg_kinds(ifs):
    """the 7 segment kinds of the property for one IFS setting -> list of word-part lists + env additions"""
    eff = " \t\n" if ifs is None else ifs
    ws = [c for c in eff if c in " \t\n"]
    nws = [c for c in eff if c not in " \t\n"]
    kinds = [
        ("ord", [X.L("a")]),
        ("ifsws", [X.L(ws[0])] if ws else [X.L("b")]),
        ("ifsnws", [X.L(nws[0])] if nws else [X.L("c")]),
        ("nonifsws", [X.L("\t" if "\t" not in eff else "\r")]),
        ("qord", [X.Q("'", X.L("q"))]),
        ("qifs", [X.Q('"', X.L(eff[0] if eff else " "))]),
        ("qempty", [X.Q('"')]),
        ("var", [X.P("v")]),          # unquoted expansion whose value contains IFS characters
        ("qvar", [X.Q('"', X.P("v"))]),
        ("len", [X.P("v", "#")]),        # ${#v}: generated text, split like any unquoted expansion
        ("qlen", [X.Q('"', X.P("v", "#"))]),
        # an unquoted ${u-word} of an unset parameter: it adds the fields of its word to the current field; with an empty word it adds
        # nothing and must not take anything away either (an empty quoted part before it still gives a field)
        ("defempty", [X.P("u", "-", [])]),
        ("defvar", [X.P("u", ":-", [X.P("v")])]),
    ]
    return kinds


class P:
    id = "C14"
    exhaustive = True
    rule = ("exhaustive: all words of <= N segments (quick N=4, thorough N=6) over {ordinary, IFS white space, IFS non-white-space, non-IFS white space, "
            "quoted ordinary, quoted IFS char, empty quotes, unquoted $v, quoted $v, ${#v}, \"${#v}\"} x IFS in {unset, default, ' ,', ',', ':', '', multi-byte, '5 ' (a digit: the length 5 is an IFS character)}; "
            "then random longer words with random values; values with invalid UTF-8 (all strings of <= 3 pieces over 6 byte sequences, random longer ones) under IFS containing U+FFFD or an invalid byte. Non-trivial = the word has at least two segments and one of them is an IFS character or an expansion")
    assumptions = ["pathname expansion disabled (NoGlob) as the property prescribes", "unicode.IsSpace replaced by the White_Space list"]

    def parts(self, seed, tier, C):
        rnd = random.Random(seed)
        N = 4 if tier == "quick" else 6
        cases = []
        for _, ifs in IFS_SETS:
            kinds = seg_kinds(ifs)
            eff = " \t\n" if ifs is None else ifs
            val = ("x" + eff[0] + eff[-1] + "y" + eff[0]) if eff else "x y"
            for n in range(0, N + 1):
                pool = kinds if n <= 3 else (kinds[:11] if n == 4 else kinds[:7])
                for combo in itertools.product(pool, repeat=n):
                    parts = [p for _, ps in combo for p in ps]
                    cases.append(X.case(["sh"], X.NOGLOB, {"IFS": ifs, "v": val}, 0, parts))
        nex = len(cases)
        rc = []
        nrand = 20000 if tier == "quick" else 300000
        alpha = ["a", " ", "\t", "\n", ",", ":", "é", "b", "", "  ", ",,", " , ", "日", "\r", "\xa0"]
        for _ in range(nrand):
            ifs = rnd.choice([None, " \t\n", " ,", ",", ":", "", "é ", ":,", "ab", " a"])
            vs = {"IFS": ifs, "v": "".join(rnd.choice(alpha) for _ in range(rnd.randint(0, 6))),
                  "w": "".join(rnd.choice(alpha) for _ in range(rnd.randint(0, 4)))}
            parts = []
            for _ in range(rnd.randint(1, 10)):
                k = rnd.random()
                t = "".join(rnd.choice(alpha) for _ in range(rnd.randint(0, 3)))
                if k < 0.3:
                    parts.append(X.L(t))
                elif k < 0.45:
                    parts.append(X.Q("'", X.L(t)))
                elif k < 0.55:
                    parts.append(X.Q('"', X.L(t), X.P(rnd.choice("vw"))))
                elif k < 0.6:
                    parts.append(X.Q('"'))
                elif k < 0.65:
                    parts.append(X.Q("\\", X.L(rnd.choice(alpha) or "x")))
                elif k < 0.9:
                    parts.append(X.P(rnd.choice("vwu")))
                else:
                    parts.append(X.P(rnd.choice("vwu"), rnd.choice([":-", "-", ":+", "+"]),
                                     rnd.choice([[X.L(t), X.Q("'", X.L(t))], [], [X.L(t)], [X.P("u")], [X.P("v")], [X.Q('"')], [X.P("u"), X.Q("'", X.L(""))]])))
            rc.append(X.case(["sh", "p q", ""], X.NOGLOB, vs, 0, parts))

        # invalid UTF-8 in values and U+FFFD / invalid bytes in IFS: a rune decoded as RuneError has width 1, not RuneLen = 3
        bad = []
        balpha = [b"a", b"\xff", b"\xc3", b"\xef\xbf\xbd", b" ", b"\xe9", "é".encode(), b"b", b":", b"\xf0\x9f"]
        bifs = [b"\xef\xbf\xbd", b"\xff", b" \xff", b"\xef\xbf\xbd:", "é".encode(), b" \t\n", None]
        vals = [b"".join(t) for n in (1, 2, 3) for t in itertools.product(balpha[:6], repeat=n)]
        vals += [b"".join(rnd.choice(balpha) for _ in range(rnd.randint(4, 9))) for _ in range(1500 if tier == "quick" else 30000)]
        for v in vals:
            ifs = rnd.choice(bifs)
            w = rnd.choice([[X.P("v")], [X.L("x"), X.P("v")], [X.P("v"), X.Q('"', X.P("v"))], [X.Q("'", X.L("q")), X.P("v"), X.L("y")]])
            bad.append(X.case(["sh"], X.NOGLOB, {"IFS": ifs, "v": v}, 0, w))
        for ifs in bifs[:4]:
            for v in vals[:258]:
                bad.append(X.case(["sh"], X.NOGLOB, {"IFS": ifs, "v": v}, 0, [X.P("v")]))

        # a tilde-prefix at the start of the word: resolved (HOME, a known user) it is quoted text, unresolved it is ordinary
        # unquoted text and cut at IFS characters like any other
        import os
        root = C.run_harness("users", [hx("root")])[0]
        os.environ["VERIF_USERS"] = ("%s=%s" % (hx("root"), root)) if root != "-" else ""
        til = []
        for first in ("~", "~nosuchuser_c14", "~root", "~no such", "~:x", "~nosuchuser_c14:x", "~root:x", "~/a:b", "~nosuchuser_c14/p q", "~~", "~-", "~a~b"):
            for rest in ([], [X.L(":y")], [X.Q('"', X.L("q:r"))], [X.P("v")], [X.L(" z")]):
                for ifs in (None, " \t\n", ":", "~", "/", ":~ ", ""):
                    for home in ("/home/u", None, "", "/h o:me"):
                        vs = {"IFS": ifs, "HOME": home, "v": "a:b c"}
                        til.append(X.case(["sh"], X.NOGLOB, vs, 0, [X.L(first)] + rest))
                        til.append(X.case(["sh"], X.NOGLOB, vs, 0, [X.L("x=" + first)] + rest))

        def nontrivial(c):
            w = c.split("\t")[4]
            return w.count(" ") >= 1 and ("P" in w or any(x in w for x in ("L20", "L2c", "L3a", "L09")))
        return [{"name": "exhaustive", "harness": "xp", "driver": "xp14", "cases": cases, "nontrivial": nontrivial,
                 "distribution": {"max_segments": N, "ifs_settings": len(IFS_SETS), "cases": nex}},
                {"name": "random", "harness": "xp", "driver": "xp14", "cases": rc, "nontrivial": nontrivial,
                 "distribution": {"cases": nrand}},
                {"name": "tilde-prefix", "harness": "xp", "driver": "xp14", "cases": til, "nontrivial": lambda c: True,
                 "distribution": {"cases": len(til)}},
                {"name": "invalid-utf8", "harness": "xp", "driver": "xp14", "cases": bad, "nontrivial": lambda c: "P" in c.split("\t")[4],
                 "distribution": {"cases": len(bad), "ifs_settings": len(bifs)}}]

    def describe(self, part, case):
        return X.describe(case)

    def classify(self, part, case, impl, model, judge, findings):
        return None

    def replay(self, payload, C):
        c = payload["case"]
        i = C.run_harness("xp", [c])[0]
        m, j = C.run_driver("xp14", [c], [i])[0]
        print("case :", X.describe(c))
        print("impl :", i)
        print("model:", m)
        print("judge:", j)
        if i != m or j.startswith("bad"):
            print("VIOLATION property=C14 replay=(replayed)")
            return 1
        print("replay: property holds on this case now")
        return 0


PROP = P()
