"""C13 — parameter expansion: the full operator x state x parameter-kind x quoting x nounset x IFS product
against the expandParam model (correspondence) and the POSIX table (judge)."""
import itertools
import random

from common import hx, unhx
from props import xpgen as X

OPS = ["", ":-", "-", ":=", "=", ":?", "?", ":+", "+", "#len", "%", "%%", "#", "##"]
IFSS = [None, " \t\n", ",", "", "é"]
VALUES = ["abc", "a b", "x*y", "日本語", "a,b", " lead", "path/to/file.txt", "aXbXc", "[x]", "\\", "*", "a\nb"]
WORDS = {
    "lit": [X.L("w")],
    "empty": [],
    "sq": [X.Q("'", X.L("w w"))],
    "dq-var": [X.Q('"', X.L("<"), X.P("other"), X.L(">"))],
    "var": [X.P("other")],
    "pat": [X.L("*X")],
    "pat2": [X.L("a"), X.L("*")],
    "qpat": [X.Q("'", X.L("*")), X.L("b")],
    "glob-q": [X.L("?")],
    "tilde": [X.L("~")],
    "assign-inner": [X.P("inner", ":=", [X.L("iv")])],
    "arith": [X.A(X.L("1+"), X.P("n"))],
    "bad-arith": [X.A(X.L("1+"))],
}


def params():
    # (kind, name, args, vars-for-state) for state in unset/null/nonnull
    out = []
    for st in ("unset", "null", "val"):
        out.append(("ordinary", "v", ["sh"], st))
        out.append(("positional", "1", None, st))
        out.append(("positional2", "10", None, st))
    out.append(("special#", "#", ["sh", "a"], "val"))
    out.append(("special?", "?", ["sh"], "val"))
    out.append(("special-", "-", ["sh"], "val"))
    out.append(("special!", "!", ["sh"], "unset"))
    out.append(("special0", "0", ["sh"], "val"))
    out.append(("special0-empty", "0", ["", "a"], "null"))       # an empty shell name: $0 is set and null
    return out


class P:
    id = "C13"
    exhaustive = True
    rule = ("full product {14 operators} x {unset,null,non-null} x {ordinary, positional $1, $10, specials} x {unquoted, double-quoted} x "
            "{13 operator words: literal, empty, quoted, nested expansion, patterns, tilde, nested assignment, arithmetic, bad arithmetic} x "
            "{nounset on/off} x {5 IFS settings} with 12 values; plus $@/$*/${#@}/${#*}/${@#w}.. (removal operators per parameter) x quoting x 0..3 positional parameters x IFS; plus random. "
            "Non-trivial = has an operator or is $@/$*; distinct cases counted")
    assumptions = ["user.Lookup answered from the harness' probe of 'root' and a non-existing name (oracle)", "pathname expansion disabled"]

    def parts(self, seed, tier, C):
        import os
        root = C.run_harness("users", [hx("root")])[0]
        os.environ["VERIF_USERS"] = ("%s=%s" % (hx("root"), root)) if root != "-" else ""
        rnd = random.Random(seed)
        cases = []
        nvals = 3 if tier == "quick" else len(VALUES)
        for (kind, name, args0, st), op, (wk, word), quoted, nounset, ifs in itertools.product(
                params(), OPS, WORDS.items(), (False, True), (False, True), IFSS if tier != "quick" else IFSS[:3]):
            for val in rnd.sample(VALUES, nvals):
                vs = {"IFS": ifs, "other": "O o", "n": "41"}
                args = args0
                if kind == "ordinary":
                    vs["v"] = {"unset": None, "null": "", "val": val}[st]
                elif kind.startswith("positional"):
                    idx = int(name)
                    filler = ["p%d" % i for i in range(1, idx)]
                    args = ["sh"] + filler + ({"unset": [], "null": [""], "val": [val]}[st])
                if op == "#len":
                    pe = X.P(name, "#", None)
                    if wk != "lit":
                        continue
                elif op == "":
                    pe = X.P(name, "", None)
                    if wk != "lit":
                        continue
                else:
                    pe = X.P(name, op, word)
                parts = [X.Q('"', pe)] if quoted else [pe]
                cases.append(X.case(args, X.NOGLOB | (X.NOUNSET if nounset else 0), vs, 0, parts))
                if st != "val":
                    break
        # $- with no option on: set and null (never unset)
        for op, quoted, nounset_bit in itertools.product(OPS, (False, True), (0,)):
            if op == "#len":
                pe = X.P("-", "#", None)
            elif op == "":
                pe = X.P("-", "", None)
            else:
                pe = X.P("-", op, [X.L("w")])
            cases.append(X.case(["sh"], 0, {"IFS": None}, 0, [X.Q('"', pe)] if quoted else [pe]))
        # $@ and $*
        at = []
        for name, quoted, n, ifs, nounset in itertools.product("@*", (False, True), range(0, 4), IFSS + [":x", b"\xff,", b"\x80:", b"\xc3", "\ufffd,", b"\xe3\x81z"], (False, True)):
            for vals in (["a", "b c", ""], ["", "x", "y"], ["日", "q", "r"], ["xa", "xbx", "cx"]):
                args = ["sh"] + vals[:n]
                for pe in (X.P(name), X.P(name, "#", None), X.P(name, ":-", [X.L("d")]), X.P(name, "+", [X.L("alt")]),
                           # the removal operators apply to each positional parameter in turn
                           X.P(name, "#", [X.L("x")]), X.P(name, "##", [X.L("*b")]), X.P(name, "%", [X.L("x")]), X.P(name, "%%", [X.L("b*")]),
                           X.P(name, "#", [X.L("?")]), X.P(name, "%", [])):
                    parts = [X.Q('"', pe)] if quoted else [pe]
                    at.append(X.case(args, X.NOGLOB | (X.NOUNSET if nounset else 0), {"IFS": ifs}, 0, parts))
                    # embedded: "x$@y"
                    if quoted:
                        at.append(X.case(args, X.NOGLOB, {"IFS": ifs}, 0, [X.Q('"', X.L("x"), pe, X.L("y"))]))
        # Expand under mode Quote is "as if within double-quotes": $@ / $* in every mode, zero to two parameters
        for name, n, mode, ifs in itertools.product("@*", range(0, 3), (16, 16 | 2, 16 | 1, 16 | 4, 16 | 8, 2, 1, 4, 8), (None, ",", "")):
            for pes in ([X.P(name)], [X.P(name), X.P(name)], [X.P(name), X.L("x")], [X.P(name, "", None)], [X.P(name, ":-", [X.L("d")])], [X.Q('"', X.P(name))]):
                at.append(X.case(["sh"] + ["a b", "c"][:n], X.NOGLOB, {"IFS": ifs}, mode, pes))
        # a quoted character in the word of a removal operator matches only itself: every character the expansion escapes and every
        # regular-expression metacharacter, in the three quotings, alone and next to an unquoted *
        for c_ in "?*[\\]-!^.+()|{}$":
            val = "a" + c_ + "b" + c_
            for q_ in ("'", "\\", '"'):
                if q_ == '"' and c_ in "$\\":
                    continue
                qc = X.Q(q_, X.L(c_))
                for op_ in ("%", "%%", "#", "##"):
                    for w_ in ([qc], [X.L("a"), qc, X.L("*")], [X.L("*"), qc], [qc, X.L("?")], [X.L("a"), qc]):
                        at.append(X.case(["sh", val], X.NOGLOB, {"IFS": None, "v": val}, 0, [X.P("v", op_, w_)]))
                    at.append(X.case(["sh", val, "x" + c_], X.NOGLOB, {"IFS": None}, 0, [X.Q('"', X.P("@", op_, [qc]))]))
        rc = []
        nrand = 20000 if tier == "quick" else 200000
        names = ["v", "u", "1", "2", "10", "#", "?", "-", "!", "0", "@", "*", "HOME", "IFS"]
        for _ in range(nrand):
            name = rnd.choice(names)
            op = rnd.choice(OPS)
            word = rnd.choice(list(WORDS.values()))
            pe = X.P(name, "#", None) if op == "#len" else (X.P(name, "", None) if op == "" else X.P(name, op, word))
            parts = [pe]
            if rnd.random() < 0.5:
                parts = [X.Q('"', *parts)]
            if rnd.random() < 0.3:
                parts = [X.L(rnd.choice(["pre", "~", "a:~"]))] + parts + [X.L(rnd.choice(["post", ""]))]
            vs = {"IFS": rnd.choice(IFSS + [":", b"\xff,", b"\x80"]), "v": rnd.choice(VALUES + ["", None]), "other": rnd.choice(["O o", "", None]), "n": rnd.choice(["41", "x", None]),
                  "HOME": rnd.choice(["/home/me", None, ""])}
            args = ["sh"] + [rnd.choice(VALUES + [""]) for _ in range(rnd.randint(0, 3))]
            rc.append(X.case(args, rnd.choice([X.NOGLOB, X.NOGLOB | X.NOUNSET]), vs, rnd.choice([0, 0, 0, 4, 8, 16, 2, 1]), parts))

        def cmp(c, i, m):
            return m == "unmodelled" or i == m

        def nontrivial(c):
            w = c.split("\t")[4]
            return ",N" not in w or "P40" in w or "P2a" in w or ",23,N" in w
        return [{"name": "table-product", "harness": "xp", "driver": "xp13", "cases": cases, "compare": cmp, "nontrivial": nontrivial,
                 "distribution": {"cases": len(cases)}},
                {"name": "at-star", "harness": "xp", "driver": "xp13", "cases": at, "compare": cmp,
                 "distribution": {"cases": len(at)}},
                {"name": "random", "harness": "xp", "driver": "xp13", "cases": rc, "compare": cmp, "nontrivial": nontrivial,
                 "distribution": {"cases": nrand}}]

    def describe(self, part, case):
        return X.describe(case)

    def classify(self, part, case, impl, model, judge, findings):
        if judge.startswith("bad") and impl == model:
            f = case.split("\t")
            # F18: "$@" (possibly embedded in a double-quoted word) with no positional parameters yields one field
            if "P40,,N" in f[4] and f[4].startswith("Q34(") and f[0] == hx("sh"):
                for fd in findings:
                    if fd.get("id") == "F18" and fd.get("status") == "open":
                        return "F18"
        return None

    def replay(self, payload, C):
        c = payload["case"]
        i = C.run_harness("xp", [c])[0]
        m, j = C.run_driver("xp13", [c], [i])[0]
        print("case :", X.describe(c))
        print("impl :", i)
        print("model:", m)
        print("judge:", j)
        if (m != "unmodelled" and i != m) or j.startswith("bad"):
            print("VIOLATION property=C13 replay=(replayed)")
            return 1
        print("replay: property holds on this case now")
        return 0


PROP = P()
