"""C15 — quoted text survives parsing and expansion unchanged (harness handler quote): every string under single, double, backslash
and mixed quoting is parsed as the second word of a command and expanded under 5 ExpModes x 3 option sets x 4 IFS values (incl. IFS made
of the string's own characters), with HOME and positional parameters set and, for a sample, a working directory holding files named like the string."""
import itertools
import random

from common import hx, unhx

SPECIAL = ["a", " ", "\t", "\n", "$", "`", '"', "'", "\\", "*", "?", "[", "]", "~", "#", ";", "&", "|", "(", ")", "<", ">", "{", "}", "!", "=", "é", ":", "-", "/", ".", "\r", "^", "+", "%", ",", "@", "\ufffd"]


class P:
    id = "C15"
    exhaustive = True
    rule = ("exhaustive: every string of <= 3 (quick; 4 thorough) symbols over 38 special characters (CR, ^ + % , @ and U+FFFD among them) (blanks, newline, $ ` \" ' \\ * ? [ ] ~ # ; & | ( ) < > { } ! = "
            "multi-byte : - / .); paths with . and .. components; random longer strings with multi-byte runes and newlines; each x 4 quoting styles x 5 ExpModes x 3 option sets x 4 IFS values; "
            "1/50 of them with matching files in the working directory. Non-trivial = length >= 1 with a special character; distinct strings counted")
    assumptions = ["strings are valid UTF-8 without NUL (the lexer reads runes)"]

    def parts(self, seed, tier, C):
        rnd = random.Random(seed)
        L = 2 if tier == "quick" else 3
        strs = ["".join(t) for n in range(L + 1) for t in itertools.product(SPECIAL, repeat=n)]
        strs += ["".join(rnd.choice(SPECIAL + ["b", "日", "x y", "\r\n"]) for _ in range(rnd.randint(3, 10))) for _ in range(3000 if tier == "quick" else 40000)]
        cases = ["%s\t%s" % (hx(s), "1" if k % 50 == 0 else "0") for k, s in enumerate(strs)]
        # paths that exist in every directory, or once a file named like the string has been created: pathname expansion must
        # give the quoted text back unchanged
        for s in ["./.", "./..", ".//.", "././.", "../.", "./a", ".//a", "./d/a", "d/./a", "a/", "./", "../", "/.", "//", "/./", "./*", "./a*", "a/../a", ".\\/a"]:
            cases.append("%s\t1" % hx(s))
            cases.append("%s\t0" % hx(s))

        # after "[[" a quoted . = : opens no collating symbol, equivalence class or character class
        for s in [".a.", "=a=", ":alpha:", ".", ".]", "a.]", ":", "=", ".a.]x", ":digit:]"]:
            cases.append("%s\t0" % hx(s))

        def ok(c, o):
            return o.startswith("ok")
        # scanner correspondence: the word the parser builds for each pure style vs the scanner model (Lex/Quote.v)
        sc = []
        for s in strs:
            if "'" not in s:
                sc.append("s\t" + hx(s))
            sc.append("d\t" + hx(s))
            if "\n" not in s and s != "":
                sc.append("b\t" + hx(s))
        return [{"name": "scanner-model", "harness": "qword", "driver": "qword", "cases": sc,
                 "nontrivial": lambda c: len(c.split("\t")[1]) >= 2, "distribution": {"cases": len(sc)}},
                {"name": "quoted-strings", "harness": "quote", "driver": None, "cases": cases, "impl_ok": ok, "chunk": 100,
                 "nontrivial": lambda c: len(c.split("\t")[0]) >= 2,
                 "distribution": {"strings": len(cases)}}]

    def describe(self, part, case):
        if part == "scanner-model":
            return "scan of style %s quoting of %r" % (case.split("\t")[0], unhx(case.split("\t")[1]).decode("utf-8", "replace"))
        return "quoting of %r%s" % (unhx(case.split("\t")[0]).decode("utf-8", "replace"), " (files present)" if case.endswith("1") else "")

    def classify(self, part, case, impl, model, judge, findings):
        return None

    def replay(self, payload, C):
        c = payload["case"]
        if payload.get("part") == "scanner-model":
            i = C.run_harness("qword", [c])[0]
            m, _ = C.run_driver("qword", [c], [i])[0]
            print("case :", c, "\nimpl :", i, "\nmodel:", m)
            if i != m:
                print("VIOLATION property=C15 replay=(replayed)")
                return 1
            print("replay: property holds on this case now")
            return 0
        o = C.run_harness("quote", [c])[0]
        print("case :", self.describe(None, c))
        print("impl :", o[:400])
        if not o.startswith("ok"):
            print("VIOLATION property=C15 replay=(replayed)")
            return 1
        print("replay: property holds on this case now")
        return 0


PROP = P()
