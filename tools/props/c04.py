"""C04 — every recorded position designates the token it documents (harness handler pos): intrinsic check of (source, AST):
the text at every stored position spells the documented token (operators, reserved words, quote characters, $ ${ $(( ( ) names,
literals, comments' #), Pos <= End, non-zero End, positions inside the consumed text, children inside parents, siblings increasing,
columns in characters.  Documented exclusions: text inside line continuations, Comment.End."""
import random

from common import hx, unhx
from props import parsegen as G

CORPUS = ['echo ""\n', "echo ''\n", "é=1\n", "日本=b a\n", "a\\\n", "x=1 y=2 z\n", "a <<E\nb\nE\n", "a <<E | b\nc\nE\n", "if a; then b; fi\n", "a # c\n", "f() { a; }\n",
          "$(a) `b` $((1+2)) ${x:-y} $x\n", "case x in (a|b) c;; esac\n", "for i in 1 2; do a; done\n", "a && b || c &\n", "! a | b\n", "((1+2))\n", "é 'é' \"é$x\"\n",
          # comments ended by the closing backquote; a substitution's closing character after a comment
          "echo `date # now`\n", "echo `a #c` b\n", "x=`a # c`\n", "echo \"`a #c`\" d\n", "`a #`\n", "echo $(( `a #c` )) e\n", "echo ${x:-`a #c`} f\n", "echo `a #c\n` g\n",
          "echo $(a #c\n) h\n", "echo `a; b # c` `d # e`\n", "f() { echo `a # c`; }\n",
          # (F66) a line continuation directly before the closing brace of an expansion that ends a quotation or holds one
          '"${x-\\\n}" b\n', '${x-"\\\n"}\n', '"a\\\n"b\n', 'echo "${x:-a\\\n}" b\n']


class P:
    id = "C04"
    rule = ("generated programs (depth 1-3, plain and rich layouts: tabs, extra blanks, line continuations, comments, blank lines; multi-line; "
            "here-documents; nested substitutions; multi-byte names and words) plus all strings of <= 3 significant characters that parse, plus a corpus; "
            "each ParseCommands call is checked against exactly the text it consumed. Non-trivial = accepted source with >= 2 tokens; distinct sources counted")
    assumptions = ["sources without alias substitution, as the property states"]
    exhaustive = False

    def parts(self, seed, tier, C):
        rnd = random.Random(seed)
        g = G.Gen(rnd)
        g.with_comments = True
        n = 4000 if tier == "quick" else 60000
        srcs = list(CORPUS)
        for k in range(n):
            g.rich_layout = (k % 2 == 1)
            srcs.append(g.program(rnd.choice([1, 2, 2, 3])))
        # renderings of grammar derivations (all word forms adjacent to each other, here-documents before line breaks after && || |)
        from props import dgen as D
        dg = D.DGen(rnd)
        for _ in range(3000 if tier == "quick" else 40000):
            srcs.append(D.render(dg.program(rnd.choice([1, 2, 2, 3])), rnd, rich=rnd.random() < 0.7)[0])
        srcs += G.arith_corpus() + G.heredoc_corpus()
        srcs += list(G.strings_upto(G.ALPHA1, 3 if tier == "quick" else 4))
        cases = [hx(s) for s in srcs]

        def ok(c, o):
            return o.startswith(("ok", "skip"))
        # the End() methods of the word parts recomputed by their model (Ast/Ends.v) from the positions stored in the parts
        epart = {"name": "word-part-ends", "harness": "ends", "driver": "ends", "cases": cases, "compare": lambda c, i, m: True,
                 "impl_ok": lambda c, o: o.startswith(("ok ", "skip")), "nontrivial": lambda c: len(c) >= 6,
                 "distribution": {"sources": len(cases)}}
        return [epart, {"name": "positions", "harness": "pos", "driver": None, "cases": cases, "impl_ok": ok,
                 "nontrivial": lambda c: len(c) >= 6,
                 "distribution": {"generated": n, "short_strings": len(cases) - n - len(CORPUS)}}]

    def describe(self, part, case):
        return "positions of %r" % unhx(case.split("\t")[0]).decode("utf-8", "replace")

    def classify(self, part, case, impl, model, judge, findings):
        if impl.startswith("KNOWN:F28:"):
            for f in findings:
                if f.get("id") == "F28" and f.get("status") == "open":
                    return "F28"
        src = unhx(case.split("\t")[0])
        if impl.startswith("FAIL:") and ":end-outside:" in impl and (b"\\\n}" in src or b"\\\n\"" in src):
            for f in findings:
                if f.get("id") == "F66" and f.get("status") == "open":
                    return "F66"
        return None

    def shrink(self, u, C):
        if u.get("part") == "word-part-ends":
            return u
        k0 = ":".join(u["impl"].split(":")[1:3])

        def pred(t):
            o = C.run_harness("pos", [hx(t)])[0]
            return o.startswith("FAIL") and ":".join(o.split(":")[1:3]) == k0
        src = G.shrink(unhx(u["case"]).decode("utf-8", "replace"), pred, max_steps=600)
        return dict(u, case=hx(src), impl=C.run_harness("pos", [hx(src)])[0])

    def replay(self, payload, C):
        c = payload["case"]
        if payload.get("part") == "word-part-ends":
            i = C.run_harness("ends", [c])[0]
            m, j = C.run_driver("ends", [c], [i])[0]
            print("case :", self.describe("word-part-ends", c), "\nimpl :", i[:600], "\njudge:", j)
            if j.startswith("bad") or not i.startswith(("ok ", "skip")):
                print("VIOLATION property=C04 replay=(replayed)")
                return 1
            print("replay: property holds on this case now")
            return 0
        o = C.run_harness("pos", [c])[0]
        print("case :", self.describe(None, c))
        print("impl :", o[:400])
        if not o.startswith(("ok", "skip", "KNOWN:F28")):
            print("VIOLATION property=C04 replay=(replayed)")
            return 1
        print("replay: property holds on this case now (or only the listed finding F28 remains)")
        return 0


PROP = P()
