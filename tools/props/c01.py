"""C01 — parsing is total: outcome class of ParseCommands on exhaustive short strings over the shell's
significant alphabet, words-as-symbols strings, generated and mutated programs, x source kinds x panicnil x alias tables,
each worker isolated (a dead worker is bisected to the single input) and each call under a watchdog."""
import os
import random

from common import hx, unhx
from props import parsegen as G


def first_line_blank(src):
    s = src.replace("\\\n", "")
    line = s.split("\n")[0].lstrip(" \t")
    return line == "" or line.startswith("#")


def impl_ok(case, out):
    if not out.startswith("ok "):
        return False
    src = unhx(case.split("\t")[0]).decode("utf-8", "replace")
    f = dict(x.split("=", 1) for x in out.split(" ")[1:])
    if len(case.split("\t")) > 1 and case.split("\t")[1]:
        return True   # with aliases the first line may legitimately expand to nothing
    return f["K"] != "()" or f["E"] != "nil" or first_line_blank(src)


ALIASES = [
    {"a": "b"}, {"a": "a"}, {"a": "b", "b": "a"}, {"a": "b ", "b": "c", "c": "a"}, {"a": "if", "b": "then"},
    {"a": "x; "}, {"a": "echo $(", "b": ")"}, {"a": "a a"}, {"if": "fi"}, {"a": ""}, {"a": " "}, {"a": "b\n"}, {"a": "'"}, {"a": "<<E"},
    # cycles that pass through a command substitution / arithmetic expansion
    {"a": "echo $(a)"}, {"a": "echo `b`", "b": "echo $(a)"}, {"a": "x $((a))"}, {"a": "b $(b)", "b": "c `a` "},
]


class P:
    id = "C01"
    exhaustive = True
    rule = ("exhaustive: every string of <= L symbols over the 22 significant single characters (quick L=4, thorough L=5) run as string source under "
            "GODEBUG=panicnil=0 (a bail-out is fatal there); every string of <= 3 symbols over these plus 13 reserved words; a 1/8 sample repeated "
            "under panicnil=1 x {[]byte, io.Reader, strings.Reader, bufio.Reader, custom RuneScanner} x 18 alias tables (incl. cycles); generated "
            "programs and their single-token mutations. Non-trivial = at least 2 symbols; distinct inputs counted. A case fails when the worker "
            "dies, the call panics in the caller's goroutine, exceeds the 3 s watchdog, or returns neither commands nor an error for a non-blank first line")
    assumptions = ["termination is observed with a 3 s watchdog per call (a hang is reported, not proved absent)"]

    def parts(self, seed, tier, C):
        rnd = random.Random(seed)
        L = 4 if tier == "quick" else 5
        ex = [G.pcase(s) for s in G.strings_upto(G.ALPHA1, L)]
        exw = [G.pcase(" ".join(t) if rnd.random() < 0.5 else "".join(t)) for t in
               __import__("itertools").product(G.ALPHA1 + G.WORDS1, repeat=3)]
        g = G.Gen(rnd)
        progs = [g.program(rnd.choice([1, 2, 3])) for _ in range(3000 if tier == "quick" else 40000)]
        muts = [G.mutate_tokens(rnd, p) for p in progs]
        cut = [p[:rnd.randint(0, len(p))] for p in progs[:1500]]
        # the corpora of here-documents and arithmetic in every position (the lexer prints body lines with the printer to find the
        # delimiter: what the printer cannot print brings the lexer goroutine down)
        corp = G.heredoc_corpus() + G.arith_corpus()
        corp += ["cat <<E\n%s\nE\n" % w for w in ("$((\n))", "$((\\\n))", "$(( \n ))", "$(\n)", "`\n`", "${x:-\n}", "$((\n1\n))", "$(($((\n))))", "\"$((\n))\"")]
        corp += ["cat <<-E\n\tx $((  \n\t ))\n\tE\n", "cat <<$((\n))\n", "echo $(cat <<E\n$((\n))\nE\n)", "cat <<\"$((\n))\"\nx\n"]
        # commands of every shape inside substitutions in here-document bodies and delimiter words (printed by the lexer goroutine)
        inner = ["! a", "! a | b", "(! a)", "( ! a; b )", "! (a)", "! ! a", "!", "! { a; }", "(a)", "((1))", "{ a; }", "a &", "a; b", "if a; then b; fi", "! a && ! b",
                 "for i in 1; do ! a; done", "case x in a) ! b;; esac", "f() { ! a; }", "! a <<F\nF\n", "a | ! b", "while ! a; do b; done"]
        inner += [q.rstrip("\n") for q in progs[:700] if q.count("\n") == 1 and "<<" not in q]
        for q in inner:
            corp += ["cat <<E\n$(%s)\nE\n" % q, "cat <<E\nx $(%s) y `z`\nE\n" % q, "cat <<$(%s)\n$(%s)\n" % (q, q), "cat <<-E\n\t$( (%s))\n\tE\n" % q]
            if "`" not in q and "\\" not in q and "$" not in q:
                corp += ["cat <<E\n`%s`\nE\n" % q, "echo $(cat <<E\n$(%s)\nE\n)" % q]
        gen = [G.pcase(p) for p in progs + muts + cut + corp]
        # other configurations on a sample
        sample = [unhx(c.split("\t")[0]).decode() for c in rnd.sample(ex, len(ex) // 8)] + progs[:800] + muts[:800]
        other = []
        for s in sample:
            other.append(G.pcase(s, aliases=rnd.choice(ALIASES + [None]), kind=rnd.choice(["b", "r", "R", "B", "c"])))
        # alias values that end inside a construct (substitution, expansion, quote, escape, here-document operator), the alias
        # name being a prefix of its own value, alone and through a chain; every string of <= 3 symbols (4 in the thorough tier) over
        # command words, the headers of for / case, separators and the alias names
        syms = ["for", "case", "in", "do", "done", "esac", "if", "then", "fi", "a", "E", "F", ";", "\n", "x", "(", ")", "{", "}", "|", "&&", "!", "1"]
        opens = ["`", "$(", "${x:-", "$((", '"', "'", "\\", "<<D", "$(a `", '"$(', "((", "(", "{", "if", "a |", "a &&", "$"]
        tables = []
        for o in opens:
            tables += [{"E": "E" + o}, {"E": "a " + o, "F": "E"}, {"E": "F", "F": "F" + o}, {"E": "F ", "F": o + " "}]
        open_cases = []
        for n in (1, 2, 3) if tier == "quick" else (1, 2, 3, 4):
            for t in __import__("itertools").product(syms, repeat=n):
                if "E" not in t and "F" not in t:
                    continue
                src = " ".join(t)
                if tier == "quick" and n == 3:
                    open_cases += [G.pcase(src, aliases=tb) for tb in rnd.sample(tables, 6)]
                elif n == 4:
                    open_cases += [G.pcase(src, aliases=tb) for tb in rnd.sample(tables, 2)]
                else:
                    open_cases += [G.pcase(src, aliases=tb) for tb in tables]
        # here-documents inside substitutions inside alias values (the lexer prints body lines to find the delimiter)
        for v_ in ["cat <<E\n`cat <<F\nF\n`\nE\n", "(( $(cat <<E\nx\nE\n) +", "echo $(( `cat <<E\nx\nE\n` +", "cat <<E\n$(( $(cat <<F\nx\nF\n) +",
                   "cat <<E\n$(cat <<F\nf\nF\n) `cat <<G\nG\n`\nE\n", "cat <<E\n${x:-$(cat <<F\nf\nF\n)}", "echo \"$(cat <<E\n$((1 +"]:
            for s_ in ["a", "a\n", "a\n1 ))\n", "a\n1 ))\nE\n", "a\n2))\"\nE\n", "{ a\n}", "a\nE\n", "a\n}\nE\n"]:
                open_cases.append(G.pcase(s_, aliases={"a": v_}))
        env0 = dict(os.environ, GODEBUG="panicnil=0")
        env1 = dict(os.environ, GODEBUG="panicnil=1")
        nt = lambda c: len(unhx(c.split("\t")[0])) >= 2
        return [
            {"name": "exhaustive-chars-panicnil0", "harness": "parse", "driver": None, "cases": ex, "env": env0, "impl_ok": impl_ok, "nontrivial": nt,
             "distribution": {"max_len": L, "alphabet": 22, "cases": len(ex)}},
            {"name": "exhaustive-words-panicnil0", "harness": "parse", "driver": None, "cases": exw, "env": env0, "impl_ok": impl_ok, "nontrivial": nt,
             "distribution": {"symbols": 35, "len": 3, "cases": len(exw)}},
            {"name": "programs-mutants-panicnil0", "harness": "parse", "driver": None, "cases": gen, "env": env0, "impl_ok": impl_ok, "nontrivial": nt,
             "distribution": {"programs": len(progs), "mutants": len(muts), "truncations": len(cut)}},
            {"name": "alias-values-ending-inside-constructs", "harness": "parse", "driver": None, "cases": open_cases, "env": env0, "impl_ok": impl_ok, "nontrivial": nt,
             "distribution": {"cases": len(open_cases), "tables": len(tables), "symbols": len(syms)}},
            {"name": "kinds-aliases-panicnil1", "harness": "parse", "driver": None, "cases": other, "env": env1, "impl_ok": impl_ok, "nontrivial": nt,
             "distribution": {"cases": len(other)}},
            {"name": "kinds-aliases-panicnil0", "harness": "parse", "driver": None, "cases": other[: len(other) // 2], "env": env0, "impl_ok": impl_ok, "nontrivial": nt,
             "distribution": {"cases": len(other) // 2}},
        ]

    def describe(self, part, case):
        return G.describe(case) + " [" + str(part) + "]"

    def classify(self, part, case, impl, model, judge, findings):
        return None

    def replay(self, payload, C):
        c = payload["case"]
        part = payload.get("part", "")
        env = dict(os.environ, GODEBUG="panicnil=1" if "panicnil1" in part else "panicnil=0")
        i = C.run_harness("parse", [c], env=env)[0]
        print("case :", G.describe(c))
        print("impl :", i[:400])
        if not impl_ok(c, i):
            print("VIOLATION property=C01 replay=(replayed)")
            return 1
        print("replay: property holds on this case now")
        return 0


PROP = P()
