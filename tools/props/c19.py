"""C19 — whatever the parser produces can be printed, measured and expanded without panic; Eval / Match / Glob / Option.String are
total on arbitrary input (harness handlers down, anystr, optstr; isolated workers, bisected on death)."""
import itertools
import random

from common import hx, unhx
from props import parsegen as G


def ok(c, o):
    return o.startswith(("ok", "skip"))


ODD = ["a\\", "echo ''", 'echo ""', "cat <<E\nE\n", "cat <<E\n\nE\n", "''", '""', "a=", "=a", "$", "${x}", "${#}", "${#x}", "$((", "\\\n", "a\\\nb", "$()", "``", "(( ))", "${x:-}", "~", "~a:~b",
       "x=~/a:~b", "'\n'", "$@$*", "${@:-a}", "${*%a}", "${#@}", "${#*}", "a'b'\"c\"\\d", "$x$y", "<<-E\n\tE\n", ">f", "3>&-", "{ :; }", "f() { :; }", "for i do :; done", "case x in esac",
       # positional parameters whose number does not fit an int, an int64, a uint64
       "echo ${99999999999999999999}", "echo ${9223372036854775808}", "echo ${9223372036854775807}", "echo ${18446744073709551616}", "echo ${18446744073709551615}",
       "echo ${#99999999999999999999} \"${9223372036854775808:-w}\" ${4294967296%x} $((${9223372036854775808}+1))", "echo ${00000000000000000000001} ${010} $010",
       "cat <<E\n${9223372036854775808}\nE\n"]


class P:
    id = "C19"
    exhaustive = True
    rule = ("every source accepted by the parser among: all strings of <= 4 significant characters (quick; 5 thorough) that parse without error, the "
            "oddities corpus (lone trailing backslash, empty quotes, empty here-documents ...), generated programs: Pos()/End() of every node, Fprint "
            "under all 256 Configs, Expand of every word under 8 ExpModes x 3 option sets x 2 argument vectors; Eval, Match (16 mode values, 1 and 2 "
            "patterns) and Glob on all strings of <= 3 symbols over a 24-symbol alphabet of operators, brackets, quotes, escapes, multi-byte and "
            "invalid bytes plus random longer strings; the model of Eval (proved total) against interp.Eval on the same strings and on generated expressions of depth 2-6 with 18 kinds of variable values; Option.String on all 2^14 values and on high bits. Non-trivial = length >= 2; distinct inputs counted")
    assumptions = ["absence of panics is observed, in isolated worker processes; termination by watchdog"]

    def parts(self, seed, tier, C):
        rnd = random.Random(seed)
        L = 3 if tier == "quick" else 4
        srcs = ODD + [s for s in G.strings_upto(G.ALPHA1, L)]
        g = G.Gen(rnd)
        g.with_comments = True
        srcs += [g.program(rnd.choice([1, 2, 3])) for _ in range(600 if tier == "quick" else 8000)]
        srcs += G.heredoc_corpus() + G.arith_corpus()
        down = [hx(s) for s in srcs]
        # trees built from alias text: multi-line values, here-documents inside substitutions inside here-documents and arithmetic,
        # substitutions opened in the value and closed in the source
        def al(t):
            return ",".join("%s=%s" % (hx(k), hx(v)) for k, v in t.items())
        atabs = [{"a": "cat <<E\n`cat <<F\nF\n`\nE\n"}, {"a": "(( $(cat <<E\nx\nE\n) +"}, {"a": "echo $(( `cat <<E\nx\nE\n` +"}, {"a": "cat <<E\n$(( $(cat <<F\nx\nF\n) +"},
                 {"a": "{ b\nc; }"}, {"a": "for i in 1; do b\nc\ndone"}, {"a": "if x\nthen y\nfi"}, {"a": "case x in\ny) z\nw;;\nesac"}, {"a": "echo $(cat <<E\nx\nE\n)"},
                 {"a": "echo 'p\nq'"}, {"a": "cat <<E\nbody\nE\necho after"}, {"a": "echo \"$(b\nc)\" $(( 1 +\n2 ))"}, {"a": "b ", "b": "cat <<-E\n\tx\n\tE\n"},
                 {"a": "echo $(cat <<E; cat <<F\n1\nE\n2\nF\n) `cat <<G\ng\nG\n`"},
                 # a word part that holds a newline followed by another part (inside alias text a part "ends" on a later line than the
                 # next one begins), here-document bodies of several lines (not merged into one literal there)
                 {"a": "echo 'a\nb'c "}, {"a": "echo \"a\nb\"$c "}, {"a": "cat <<E\nfoo\nbar\nE\n"}, {"a": "echo ${x:-'a\nb'}c"}, {"a": "x='1\n2'$y z"},
                 {"a": "echo \"a\nb\"'c\nd'e$(f\ng)h"}, {"a": "cat <<E\n$x\n$y z\nE\n"}, {"a": "echo a\\\nb\\\n$c"}, {"a": "x=$(cat <<E\n$(cat <<F\nf\nF\n)\nE\n) y"}]
        # every construct with a layout decision of its own, holding a quotation that ends in (or holds) a newline as its last or
        # only part: inside alias text the part ends on a later line than the construct begins
        for tpl in ("echo $((%s))", "((%s))", "echo $(b %s)", "echo `b %s`", "echo ${x:-%s}", "echo \"$((%s))\"", "x=$((%s)) y", "{ echo $((%s)); }",
                    "if ((%s)); then b; fi", "echo $(( $((%s)) ))", "for i in %s; do b; done", "case %s in c) d;; esac", "b >%s", "f() ((%s))"):
            for w in ("\"1\n\"", "'1\n'", "1 + \"\n\"", "\"\n\"", "$x\"\n\"", "\"a\nb\"", "'\n'1", "1 +\n2", "\"$(c\nd)\n\""):
                atabs.append({"a": tpl % w})
        asrcs = ["a", "a\n", "a\n1 ))\n", "a\n1 ))\nE\n", "{ a; }", "( a )", "a | a", "if a; then a; fi", "while a; do a; done", "a\n1 ))", "x=1 a", "a z", "a; a"]
        down += ["%s\t%s" % (hx(s_), al(t_)) for t_ in atabs for s_ in asrcs]
        alpha = ["a", "1", "x", "*", "?", "[", "]", "!", "^", "-", "\\", ".", "/", "(", ")", "+", "=", " ", "\n", "é", "\xff", "$", "~", ":", "<", ">", "&", "|", "%", "0x", "08", "<<", ">>", "64", "-1"]
        strs = ["".join(t).encode("latin-1", "replace") if False else "".join(t) for t in itertools.product(alpha, repeat=1)]
        strs = [""] + ["".join(t) for n in (1, 2, 3 if tier != "quick" else 2) for t in itertools.product(alpha, repeat=n)]
        strs += ["".join(rnd.choice(alpha) for _ in range(rnd.randint(4, 12))) for _ in range(4000 if tier == "quick" else 60000)]
        anys = [s.encode("utf-8", "surrogateescape").hex() if "\xff" not in s else s.replace("\xff", "\udcff").encode("utf-8", "surrogateescape").hex() for s in strs]
        opts = [str(i) for i in range(1 << 14)] + [str(1 << 13), str((1 << 62) - 1), str(1 << 20)]
        nt = lambda c: len(c) >= 4
        # the model of Eval whose totality is proved (C19_eval_total), against interp.Eval on the same strings
        from props import c11 as A
        evs = [A.mk({"x": rnd.choice(A.VALS), "y": rnd.choice(A.VALS)}, s) for s in strs if "\xff" not in s or len(s) <= 3]
        evs += [A.mk({"x": rnd.choice(A.VALS), "y": rnd.choice(A.VALS)}, A.respace(rnd, A.gen(rnd, rnd.choice([2, 3, 4, 5, 6]))))
                for _ in range(3000 if tier == "quick" else 40000)]

        def ecmp(c, i, m):
            if m.startswith("err:syntax"):
                return i.startswith("err:")
            if m.startswith("err:"):
                return i.startswith("err:") and i.split(" S=")[1] == m.split(" S=")[1]
            return i == m
        return [{"name": "downstream-of-parser", "harness": "down", "driver": None, "cases": down, "impl_ok": ok, "nontrivial": nt, "chunk": 200,
                 "distribution": {"sources": len(down)}},
                {"name": "eval-match-glob-any-string", "harness": "anystr", "driver": None, "cases": anys, "impl_ok": ok, "nontrivial": nt,
                 "distribution": {"strings": len(anys)}},
                {"name": "eval-model-correspondence", "harness": "c11", "driver": "c11", "cases": evs, "compare": ecmp, "ignore_judge": True,
                 "nontrivial": lambda c: len(c.split("\t")[1]) >= 4, "distribution": {"expressions": len(evs)}},
                {"name": "option-string", "harness": "optstr", "driver": "optstr", "cases": opts, "nontrivial": lambda c: c != "0"}]

    def describe(self, part, case):
        if part == "option-string":
            return "Option(%s).String()" % case
        if part == "eval-model-correspondence":
            from props import c11 as A
            return A.PROP.describe("random-depth3-4", case)
        return "%s on %r" % (part, unhx(case.split("\t")[0]).decode("utf-8", "replace"))

    def classify(self, part, case, impl, model, judge, findings):
        return None

    def replay(self, payload, C):
        part = payload.get("part")
        if part == "eval-model-correspondence":
            from props import c11 as A
            c = payload["case"]
            i = C.run_harness("c11", [c])[0]
            m = C.run_driver("c11", [c])[0]
            print("case :", self.describe(part, c)); print("impl :", i[:300]); print("model:", m[:300])
            if i.startswith("panic") or not (i == m or (m.startswith("err:") and i.startswith("err:"))):
                print("VIOLATION property=C19 replay=(replayed)")
                return 1
            print("replay: property holds on this case now")
            return 0
        sub = {"downstream-of-parser": "down", "eval-match-glob-any-string": "anystr", "option-string": "optstr"}.get(part, "down")
        c = payload["case"]
        o = C.run_harness(sub, [c])[0]
        print("case :", self.describe(part, c))
        print("impl :", o[:400])
        if not ok(c, o) and sub != "optstr" or (sub == "optstr" and o == "panic"):
            print("VIOLATION property=C19 replay=(replayed)")
            return 1
        print("replay: property holds on this case now")
        return 0


PROP = P()
