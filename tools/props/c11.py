"""C11 — ExecEnv.Eval against the rule-action model (correspondence) and C semantics (judge)."""
import itertools
import random

from common import hx, unhx

BIN = ["*", "/", "%", "+", "-", "<<", ">>", "<", ">", "<=", ">=", "==", "!=", "&", "^", "|", "&&", "||"]
ASG = ["=", "*=", "/=", "%=", "+=", "-=", "<<=", ">>=", "&=", "^=", "|="]
UN = ["+", "-", "~", "!"]
LITS = ["0", "1", "2", "3", "7", "(-1)", "9223372036854775807", "(-9223372036854775807-1)", "010", "0x1F"]
BADLITS = ["08", "0xz", "9223372036854775808", "1a"]
VARS = ["x", "y"]
VALS = [None, "", "5", "010", "0x1F", "-3", "abc", "0", "1", "-1", "9223372036854775807", "-9223372036854775808", "64", "0b101", "1_000", " 7", "+2", "é"]


def leaf(rnd):
    k = rnd.random()
    if k < 0.45:
        return rnd.choice(LITS)
    if k < 0.5:
        return rnd.choice(BADLITS)
    return rnd.choice(VARS)


def gen(rnd, d):
    if d == 0:
        return leaf(rnd)
    k = rnd.random()
    if k < 0.12:
        return leaf(rnd)
    if k < 0.22:
        return "%s %s" % (rnd.choice(UN), atom(rnd, d - 1))
    if k < 0.32:
        v = rnd.choice(VARS + ["(x)", "7"])
        if rnd.random() < 0.2:
            v = nonlvalue(rnd)
        return rnd.choice(["%s ++", "%s --", "++ %s", "-- %s"]) % v
    if k < 0.72:
        return "%s %s %s" % (atom(rnd, d - 1), rnd.choice(BIN), atom(rnd, d - 1))
    if k < 0.82:
        return "%s ? %s : %s" % (atom(rnd, d - 1), atom(rnd, d - 1), atom(rnd, d - 1))
    lhs = rnd.choice(VARS + VARS + ["(x)", "3"])
    if rnd.random() < 0.15:
        lhs = nonlvalue(rnd)
    return "%s %s %s" % (lhs, rnd.choice(ASG), gen(rnd, d - 1))


def nonlvalue(rnd):
    """a parenthesised operator expression over variables: the result of every operator is a value, never a place"""
    a, b = rnd.choice(VARS), rnd.choice(VARS)
    k = rnd.random()
    if k < 0.6:
        return "( %s %s %s )" % (a, rnd.choice(BIN), b)
    if k < 0.75:
        return "( %s %s )" % (rnd.choice(UN), a)
    if k < 0.85:
        return "( %s ? %s : %s )" % (rnd.choice(VARS + ["0", "1"]), a, b)
    if k < 0.95:
        return "( %s %s 1 )" % (a, rnd.choice(ASG))
    return "( %s ++ )" % a


def atom(rnd, d):
    s = gen(rnd, d)
    return s if (" " not in s) else "(%s)" % s


def respace(rnd, s):
    out = []
    for t in s.split(" "):
        out.append(t)
        out.append(rnd.choice([" ", " ", "  ", "\t", " \n"]))
    return "".join(out).rstrip() + rnd.choice(["", " "])


def mk(vals, expr):
    vs = ",".join("%s=%s" % (hx(k), hx(v)) for k, v in vals.items() if v is not None)
    return "%s\t%s" % (vs, hx(expr))


class P:
    id = "C11"
    exhaustive = True
    rule = ("exhaustive depth<=2: every unary/postfix/prefix operator x operand, every binary/logical/assignment operator x operand^2, "
            "?: x operand^3 over literals {0 1 2 3 7 -1 MaxInt64 MinInt64 010 0x1F} and variables x,y, each under 6 x 6 value pairs "
            "(unset, empty, decimal, octal, hex, garbage); random depth-3/4 trees with random spacing, redundant parentheses, malformed "
            "literals and 18 kinds of variable values; token-level garbage. Non-trivial = expression has an operator and is distinct")
    assumptions = ["unicode.IsLetter/IsDigit replaced by a table on a declared rune universe, validated against Go's tables on every run",
                   "strconv.ParseInt(s,0,0) and strconv.Itoa are transcribed (modelled library code)"]
    trusted_extra = ["models of strconv.ParseInt/Itoa, Go int arithmetic (wrap64, truncated division, shifts)"]

    def parts(self, seed, tier, C):
        rnd = random.Random(seed)
        cases = []
        ops = LITS + VARS
        exprs = []
        for a in ops:
            for u in UN:
                exprs.append("%s %s" % (u, a))
            for f in ["%s ++", "%s --", "++ %s", "-- %s"]:
                exprs.append(f % a)
        for a, b in itertools.product(ops, repeat=2):
            for o in BIN:
                exprs.append("%s %s %s" % (a, o, b))
            for o in ASG:
                exprs.append("%s %s %s" % (a, o, b))
        for a, b, c in itertools.product(ops[:4] + VARS, repeat=3):
            exprs.append("%s ? %s : %s" % (a, b, c))
        v6 = [None, "", "5", "010", "0x1F", "abc"]
        pairs = list(itertools.product(v6, repeat=2))
        if tier == "quick":
            for e in exprs:
                for (vx, vy) in rnd.sample(pairs, 6):
                    cases.append(mk({"x": vx, "y": vy}, e))
        else:
            for e in exprs:
                for (vx, vy) in pairs:
                    cases.append(mk({"x": vx, "y": vy}, e))
        nex = len(cases)
        rc = []
        nrand = 60000 if tier == "quick" else 800000
        for _ in range(nrand):
            e = respace(rnd, gen(rnd, rnd.choice([2, 3, 3, 4])))
            if rnd.random() < 0.05:
                # glue tokens / garbage: maximal munch and syntax errors
                e = e.replace(" ", "") if rnd.random() < 0.5 else e + rnd.choice([" )", " $", " 1", "+", " ? 1", "é", "\xff"])
            rc.append(mk({"x": rnd.choice(VALS), "y": rnd.choice(VALS)}, e))
        uni = [str(r) for r in range(0, 0x3000)] + [str(r) for r in range(0x4E00, 0xA000, 7)] + ["65533", "8232", "12288", "65279", "1114111"]

        def cmp(c, i, m):
            if m.startswith("err:syntax"):
                return i.startswith("err:")
            if m.startswith("err:"):
                # a fault of the evaluation (invalid number, lvalue, division by zero, shift) is not reported as a syntax error of a
                # well-formed expression; which of two faults is named is the implementation's (the repository's tests pin the last one)
                return i.startswith("err:") and not i.startswith("err:syntax") and i.split(" S=")[1] == m.split(" S=")[1]
            return i == m

        def ucmp(c, i, m):
            # m = universe,letter,digit ; i = letter,digit
            return m[0] == "0" or m[1:] == i

        def nontrivial(c):
            return any(o in unhx(c.split("\t")[1]).decode("utf-8", "replace") for o in "+-*/%<>=&|^!~?")
        return [{"name": "unicode-tables", "harness": "unicode", "driver": "unicode", "cases": uni, "compare": ucmp},
                {"name": "exhaustive-depth2", "harness": "c11", "driver": "c11", "cases": cases, "compare": cmp, "nontrivial": nontrivial,
                 "distribution": {"expressions": len(exprs), "cases": nex}},
                {"name": "random-depth3-4", "harness": "c11", "driver": "c11", "cases": rc, "compare": cmp, "nontrivial": nontrivial,
                 "distribution": {"cases": nrand}}]

    def describe(self, part, case):
        if part == "unicode-tables":
            return "rune %s" % case
        f = case.split("\t")
        vs = {unhx(kv.split("=")[0]).decode(): unhx(kv.split("=")[1]).decode("utf-8", "replace") for kv in f[0].split(",") if kv}
        return "Eval(%r) with %r" % (unhx(f[1]).decode("utf-8", "replace"), vs)

    def classify(self, part, case, impl, model, judge, findings):
        # F11: eager evaluation of && || ?: ; listed only when the deviation is exactly the modelled one
        if judge.startswith("bad:f11") and self._cmp_ok(impl, model):
            for f in findings:
                if f.get("id") == "F11" and f.get("status") == "open":
                    return "F11"
        return None

    @staticmethod
    def _cmp_ok(i, m):
        if m.startswith("err:syntax"):
            return i.startswith("err:")
        if m.startswith("err:"):
            return i.startswith("err:") and not i.startswith("err:syntax") and i.split(" S=")[1] == m.split(" S=")[1]
        return i == m

    def replay(self, payload, C):
        sub = "unicode" if payload.get("part") == "unicode-tables" else "c11"
        c = payload["case"]
        i = C.run_harness(sub, [c])[0]
        m, j = C.run_driver(sub, [c], [i])[0]
        print("case :", self.describe(payload.get("part"), c))
        print("impl :", i)
        print("model:", m)
        print("judge:", j)
        bad = j.startswith("bad") or (sub == "c11" and not self._cmp_ok(i, m))
        if bad:
            print("VIOLATION property=C11 replay=(replayed)")
            return 1
        print("replay: property holds on this case now")
        return 0


PROP = P()
