"""C02 — every grammatical program is accepted and its AST mirrors its derivation (under construction: token-level part).
The tokens the real parser received (hook parser.VerifTokenHook) are fed to the Coq grammar model (Parse/Grammar.v, extracted):
accepted <=> the model derives the token sequence, and the skeleton of the returned AST equals the skeleton the model builds."""
import random

from common import hx, unhx
from props import parsegen as G


GLUE = ["$b", '""', "''", "\\y", "$(id)", "`y`", "$((1))", "${m}", "1", "-", "é", "x"]


def name_positions():
    """words in the positions where the grammar demands a NAME, an IO number or an assignment name, in every composite shape"""
    out = []
    for g in GLUE:
        for w in ("a" + g, g + "a", "a" + g + "b"):
            out += ["for %s in x; do :; done\n" % w, "for %s; do :; done\n" % w, "for %s do :; done\n" % w, "for %s\ndo :; done\n" % w,
                    "{ for %s in x; do :; done; }\n" % w, "if x; then for %s in y; do :; done; fi\n" % w,
                    "%s() { :; }\n" % w, "%s () ( : )\n" % w, "x | %s() { :; }\n" % w,
                    "%s=1 cmd\n" % w, "a=1 %s=2 cmd\n" % w, "cmd %s=2\n" % w, "%s=\n" % w,
                    "cmd %s>f\n" % w, "cmd %s<<E\nb\nE\n" % w, "cmd 2%s>f\n" % g,
                    "case %s in %s) : ;; esac\n" % (w, w), "%s\n" % w]
    return out


def token_parts(rnd, tier, n_progs):
    g = G.Gen(rnd)
    progs = [g.program(rnd.choice([1, 2, 2, 3])) for _ in range(n_progs)]
    muts = []
    for p in progs[: n_progs // 2]:
        for _ in range(3):
            muts.append(G.mutate_tokens(rnd, p))
        muts.append(p[: rnd.randint(0, len(p))])
    short = [" ".join(t) for t in __import__("itertools").product(G.ALPHA1 + G.WORDS1, repeat=3)]
    short += list(G.strings_upto(G.ALPHA1, 3))
    names = name_positions()
    cases = [G.pcase(m) for m in progs + muts + short + names]
    return [{"name": "tokens-vs-grammar-model", "harness": "tokens", "driver": "ptok", "cases": cases, "compare": lambda c, i, m: True,
             "nontrivial": lambda c: len(unhx(c.split("\t")[0]).split()) >= 2,
             "distribution": {"programs": len(progs), "mutants": len(muts), "short": len(short), "name_positions": len(names)}}]


class P:
    id = "C02"
    rule = ("(1) derivations: token lists generated from the grammar (every command form in each of 21 contexts under 3 layouts, plus random "
            "derivations of depth 1-3 with all word forms, here-documents, nested substitutions), rendered with random grammar-preserving layout "
            "(blanks, tabs, comments, line continuations, blank lines, optional blanks around operators): the delivered tokens must be the "
            "derivation's terminals (newline tokens apart), the AST skeleton must be the one the Coq grammar model builds from them, the comments "
            "must be returned in order; (2) generated programs, their single-token mutants (incl. glued composite words) and truncations, all "
            "strings of <= 3 symbols over 22 characters + 13 reserved words, words in NAME/IO-number/assignment positions: the grammar model is "
            "run on the delivered token stream and compared with the parser's verdict, skeleton and error token")
    assumptions = []
    exhaustive = True

    def parts(self, seed, tier, C):
        rnd = random.Random(seed)
        from props import dgen as D
        cases = D.systematic(rnd)
        g = D.DGen(rnd)
        n = 5000 if tier == "quick" else 80000
        for _ in range(n):
            cases.append(D.case_line(g.program(rnd.choice([1, 2, 2, 3])), rnd, rnd.random() < 0.7))
        deriv = {"name": "derivations-rendered", "harness": "tokens", "driver": "dtok", "cases": cases, "compare": lambda c, i, m: True,
                 "nontrivial": lambda c: len(c.split("\t")[1].split("@")) >= 2,
                 "distribution": {"systematic_context_x_command_x_layout": len(D.CONTEXTS) * len(D.COMMANDS) * 3, "random_derivations": n}}
        # '#' inside a word is an ordinary character (a comment begins only where a word could begin)
        hw, hexp = [], {}
        for w in ("a#b", "a#", "x=a#b", "$x#b", "\"a\"#b", "'a'#", "${x}#b", "$(a)#b", "a\\#b#c", "1#2"):
            for ctx in ("echo %s\n", "echo %s c\n", "%s\n", "echo a; echo %s; echo d\n", "if a; then echo %s; fi\n"):
                hw.append(G.pcase(ctx % w))
                hexp[hw[-1]] = 0
        for ctl, n in (("echo a #b\n", 1), ("echo a;#b\n", 1), ("echo a\\#b\n", 0), ("echo 'a#b'\n", 0), ("echo \"a #b\"\n", 0), ("#b\n", 1), ("echo a&#b\n", 1), ("(a)#b\n", 1)):
            hw.append(G.pcase(ctl))
            hexp[hw[-1]] = n

        def hash_ok(c, o):
            if not o.startswith("ok "):
                return False
            f = dict(x.split("=", 1) for x in o.split(" ")[1:])
            ncomments = len([x for x in f.get("M", "").split(",") if x])
            return f.get("E") == "nil" and ncomments == hexp[c]
        hpart = {"name": "hash-inside-word", "harness": "parse", "driver": None, "cases": hw, "impl_ok": hash_ok,
                 "nontrivial": lambda c: True, "distribution": {"cases": len(hw)}}
        # comments inside substitutions at every nesting depth and in every kind of enclosing expansion are returned, in source
        # order, with their positions (expected list computed from the text: every '#' here that is preceded by a blank starts one)
        subs = ["$(X)", "`X`", "$(( $(X) + 1 ))", "$(( `X` ))", "\"$(X)\"", "${y:-$(X)}", "$(( 1 + $(( $(X) )) ))", "$(echo $(X))", "$(echo $(( $(X) )))",
                "\"$(( $(X) ))\"", "${y:-$(( $(X) ))}", "$(( ${y:-$(X)} ))", "$(( \"$(X)\" ))"]
        inner = ["a # c\n", "a # c1\nb # c2\n", "# only\na\n", "a | # p\nb\n", "if a; then # t\nb; fi # f\n"]
        outer = ["echo %s\n", "echo %s # tail\n", "x=%s\n", "(( %s ))\n", "cat <<E\n%s\nE\n", "if a %s; then # u\n:; fi\n", "echo %s %s\n"]
        nc, nexp = [], {}
        for sb in subs:
            for i_ in inner:
                for o_ in outer:
                    if o_.startswith("((") and not sb.startswith(("$(", "`")):
                        continue
                    if "`" in sb and "if a;" in i_ and False:
                        continue
                    w_ = sb.replace("X", i_)
                    src = o_ % ((w_,) * o_.count("%s"))
                    exp, line, col = [], 1, 1
                    for k_, ch in enumerate(src):
                        if ch == "#" and k_ > 0 and src[k_ - 1] in " (`":
                            text = src[k_ + 1:src.index("\n", k_)]
                            exp.append("%d.%d.%s" % (line, col, hx(text)))
                        if ch == "\n":
                            line, col = line + 1, 1
                        else:
                            col += 1
                    c_ = G.pcase(src)
                    nc.append(c_)
                    nexp[c_] = ",".join(exp)

        # a comment directly before the closing backquote ends there (the substitution ends at its closing backquote)
        for src, exp in (("echo `a #c`\n", "1.9.63"), ("echo `a #c` d\n", "1.9.63"), ("echo `a | #c\nb #d` e\n", "1.11.63,2.3.64"), ("echo `echo a #c`\nfoo\n", "1.14.63"),
                         ("echo \"`a # c`\" y\n", "1.10.2063"), ("echo $(a `b #c` #d\n)\n", "1.13.63,1.17.64"), ("echo `a #c\n` # t\n", "1.9.63,2.3.2074"),
                         ("x=`a #`\n", "1.6."), ("echo $((`a #c` + 1))\n", "1.12.63"), ("cat <<E\n`a #c`\nE\n", "2.4.63"), ("echo `if a; then b; fi #c`\n", "1.24.63")):
            c_ = G.pcase(src)
            nc.append(c_)
            nexp[c_] = exp

        def nested_ok(c, o):
            if not o.startswith("ok "):
                return False
            f = dict(x.split("=", 1) for x in o.split(" ")[1:])
            return f.get("E") == "nil" and f.get("M", "") == nexp[c]
        npart = {"name": "comments-in-nested-substitutions", "harness": "parse", "driver": None, "cases": nc, "impl_ok": nested_ok,
                 "nontrivial": lambda c: True, "distribution": {"cases": len(nc), "enclosing_expansions": len(subs)}}
        # a word directly before a redirection operator is an IO number only when it is one all-digit literal: the same program
        # with and without a blank between the word and the operator (harness layout: equal skeletons, both accepted)
        wr = []
        for a, b in [("echo 2\"\">x\n", "echo 2\"\" >x\n"), ("echo 1$a>x\n", "echo 1$a >x\n"), ("echo 3$(a)<y\n", "echo 3$(a) <y\n"), ("echo 4`a`>>z\n", "echo 4`a` >>z\n"),
                     ("echo 5$((1))>x\n", "echo 5$((1)) >x\n"), ("echo a2>x\n", "echo a2 >x\n"), ("echo 2a>x\n", "echo 2a >x\n"), ("echo '2'>x\n", "echo '2' >x\n"),
                     ("echo \\2>x\n", "echo \\2 >x\n"), ("echo 2''<x\n", "echo 2'' <x\n"), ("echo ${a}2>x\n", "echo ${a}2 >x\n"), ("echo 22\"a\">&2\n", "echo 22\"a\" >&2\n"),
                     ("2\"\">x\n", "2\"\" >x\n"), ("<y 2$a>x b\n", "<y 2$a >x b\n"), ("echo 1${a}>&2\n", "echo 1${a} >&2\n"), ("echo 4`a`>|x\n", "echo 4`a` >|x\n"),
                     ("echo 5$((1))<>x\n", "echo 5$((1)) <>x\n"), ("if a 7$b>x; then c; fi\n", "if a 7$b >x; then c; fi\n"), ("echo 12<<E\nb\nE\n", "echo 12<< E\nb\nE\n")]:
            wr.append("%s\t\t%s\t" % (hx(a), hx(b)))
        wpart = {"name": "word-before-redirection", "harness": "layout", "driver": None, "cases": wr, "impl_ok": lambda c, o: o == "ok",
                 "nontrivial": lambda c: True, "distribution": {"pairs": len(wr)}}
        return [deriv, hpart, npart, wpart] + token_parts(rnd, tier, 3000 if tier == "quick" else 40000)

    def describe(self, part, case):
        if len(case.split("\t")) == 3 and "#" in case.split("\t")[1]:
            return "derivation rendered as %r" % unhx(case.split("\t")[0]).decode("utf-8", "replace")
        return G.describe(case)

    def classify(self, part, case, impl, model, judge, findings):
        # F60: a '#' in the middle of a word starts a comment (pinned by the repository's own test "go version# comment")
        pname = part["name"] if isinstance(part, dict) else part
        if pname == "hash-inside-word" and impl.startswith("ok "):
            f = dict(x.split("=", 1) for x in impl.split(" ")[1:])
            if len([x for x in f.get("M", "").split(",") if x]) >= 1:
                for fd in findings:
                    if fd.get("id") == "F60" and fd.get("status") == "open":
                        return "F60"
        return None

    def replay(self, payload, C):
        c = payload["case"]
        i = C.run_harness("tokens", [c])[0]
        drv = "dtok" if payload.get("part") == "derivations-rendered" else "ptok"
        m, j = C.run_driver(drv, [c], [i])[0]
        print("case :", G.describe(c))
        print("impl :", i[:600])
        print("judge:", j[:600])
        if j.startswith("bad"):
            print("VIOLATION property=C02 replay=(replayed)")
            return 1
        return 0


PROP = P()
