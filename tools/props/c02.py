"""C02 — every grammatical program is accepted and its AST mirrors its derivation (under construction: token-level part).
The tokens the real parser received (hook parser.VerifTokenHook) are fed to the Coq grammar model (Parse/Grammar.v, extracted):
accepted <=> the model derives the token sequence, and the skeleton of the returned AST equals the skeleton the model builds."""
import random

from common import hx, unhx
from props import parsegen as G


class P:
    id = "C02"
    rule = ("generated programs (depth 1-3, all productions, heredocs, comments, rich layout), their single-token mutants and truncations, "
            "all strings of <= 3 symbols over 22 characters + 13 reserved words: the grammar model is run on the delivered token stream")
    assumptions = []
    exhaustive = True

    def parts(self, seed, tier, C):
        rnd = random.Random(seed)
        g = G.Gen(rnd)
        n = 3000 if tier == "quick" else 40000
        progs = [g.program(rnd.choice([1, 2, 2, 3])) for _ in range(n)]
        muts = []
        for p in progs[: n // 2]:
            for _ in range(3):
                muts.append(G.mutate_tokens(rnd, p))
            muts.append(p[: rnd.randint(0, len(p))])
        short = [" ".join(t) for t in __import__("itertools").product(G.ALPHA1 + G.WORDS1, repeat=3)]
        short += list(G.strings_upto(G.ALPHA1, 3))
        cases = [G.pcase(m) for m in progs + muts + short]
        return [{"name": "tokens-vs-grammar-model", "harness": "tokens", "driver": "ptok", "cases": cases, "compare": lambda c, i, m: True,
                 "nontrivial": lambda c: len(unhx(c.split("\t")[0]).split()) >= 2,
                 "distribution": {"programs": len(progs), "mutants": len(muts), "short": len(short)}}]

    def describe(self, part, case):
        return G.describe(case)

    def classify(self, part, case, impl, model, judge, findings):
        return None

    def replay(self, payload, C):
        c = payload["case"]
        i = C.run_harness("tokens", [c])[0]
        m, j = C.run_driver("ptok", [c], [i])[0]
        print("case :", G.describe(c))
        print("impl :", i[:600])
        print("judge:", j[:600])
        if j.startswith("bad"):
            print("VIOLATION property=C02 replay=(replayed)")
            return 1
        return 0


PROP = P()
