"""Serialisation of words and expansion cases (shared by C13, C14, C15, C19, C20)."""
from common import hx, unhx


def L(s):
    return "L" + hx(s)


def Q(tok, *parts):
    return "Q%d( %s )" % (ord(tok), " ".join(parts)) if parts else "Q%d( )" % ord(tok)


def P(name, op="", word=None):
    if word is None:
        return "P%s,%s,N" % (hx(name), hx(op))
    return "P%s,%s,( %s )" % (hx(name), hx(op), " ".join(word)) if word else "P%s,%s,( )" % (hx(name), hx(op))


def A(*parts):
    return "A( %s )" % " ".join(parts)


def case(args, opts, vars_, mode, parts):
    return "\t".join([",".join(hx(a) for a in args), str(opts),
                      ",".join("%s=%s" % (hx(k), hx(v)) for k, v in vars_.items() if v is not None),
                      str(mode), " ".join(parts)])


NOGLOB = 1 << 5
NOUNSET = 1 << 9


def show_word(w):
    out = []
    for t in w.split(" "):
        if t.startswith("L"):
            out.append(repr(unhx(t[1:]).decode("utf-8", "replace")))
        elif t.startswith("P"):
            n, o, r = t[1:].split(",")
            out.append("${%s%s%s" % (unhx(n).decode("utf-8", "replace"), unhx(o).decode(), "}" if r == "N" else ""))
        else:
            out.append(t)
    return " ".join(out)


def describe(case_):
    f = case_.split("\t")
    vs = {unhx(kv.split("=")[0]).decode("utf-8", "replace"): unhx(kv.split("=")[1]).decode("utf-8", "replace") for kv in f[2].split(",") if kv}
    return "Expand(%s, mode=%s) args=%s opts=%s vars=%r" % (show_word(f[4]), f[3], [unhx(a).decode("utf-8", "replace") for a in f[0].split(",") if a or True], f[1], vs)
