"""C20 — variable store histories (Set/Unset/Get/Walk) against the store model and the abstract map."""
import itertools
import random

from common import hx, unhx

ORD = [b"x", b"X", b"y", b"IFS", b"HOME", b"", "é".encode(), b"a b", b"x=1"]
SPEC = [b"@", b"*", b"#", b"?", b"-", b"$", b"!", b"0"]
POS = [b"1", b"2", b"3", b"10", b"11", b"00", b"01", b"007", b"99999999999999999999", b"1a", b"-1"]
VALS = [b"", b"a", b"b c", b"0", "日本".encode(), b" \t\n"]
ARGS = [[b"sh"], [b"sh", b"a", b"b"], [b"sh", b""], [b"", b"x"], [b"go.sh"] + [bytes([97 + i]) for i in range(11)]]


def opstr(o):
    if o[0] == "S":
        return "S,%s,%s" % (hx(o[1]), hx(o[2]))
    if o[0] in "UG":
        return "%s,%s" % (o[0], hx(o[1]))
    return "W"


def mkcase(args, opts, ops):
    return "\t".join([",".join(hx(a) for a in args), str(opts), "4242", " ".join(opstr(o) for o in ops)])


def probe(names):
    return [("G", n) for n in names] + [("W",)]


class P:
    id = "C20"
    rule = ("histories of Set/Unset/Get/Walk over ordinary, special, positional (multi-digit, leading-zero, overflow) and "
            "case-variant names; exhaustive up to length 3 over a 5-name alphabet, then random up to length 40; histories of up to 10 operations interleaved "
            "with Expand (nested := = :- :+ % # ? operators, arithmetic assignments, nounset on/off, modes 0/Quote/Literal) and Eval calls, store + Args + Opts observed "
            "after each; each history ends "
            "with Get of every universe name and Walk; a case is non-trivial when it contains at least one Set and the history is distinct")
    exhaustive = True
    assumptions = ["process environment cleared so that NewExecEnv starts from {IFS}", "os.Getpid() passed to the model as an oracle value"]

    def parts(self, seed, tier, C):
        rnd = random.Random(seed)
        cases = []
        small = [b"x", b"X", b"1", b"#", b"IFS"]
        alpha = [("S", n, v) for n in small for v in (b"a", b"")] + [("U", n) for n in small] + [("G", n) for n in small] + [("W",)]
        maxlen = 3 if tier == "quick" else 4
        for L in range(0, maxlen + 1):
            if L == 4:
                # length 4 sampled in the thorough tier
                for _ in range(60000):
                    ops = [rnd.choice(alpha) for _ in range(4)]
                    cases.append(mkcase(ARGS[1], 0, ops + probe(small)))
                continue
            for ops in itertools.product(alpha, repeat=L):
                cases.append(mkcase(ARGS[1], 0, list(ops) + probe(small)))
        nex = len(cases)
        allnames = ORD + SPEC + POS
        nrand = 4000 if tier == "quick" else 60000
        for _ in range(nrand):
            names = rnd.sample(allnames, rnd.randint(2, 8))
            ops = []
            for _ in range(rnd.randint(1, 40)):
                k = rnd.random()
                n = rnd.choice(names)
                if k < 0.4:
                    ops.append(("S", n, rnd.choice(VALS)))
                elif k < 0.55:
                    ops.append(("U", n))
                elif k < 0.9:
                    ops.append(("G", n))
                else:
                    ops.append(("W",))
            cases.append(mkcase(rnd.choice(ARGS), rnd.getrandbits(13), ops + probe(names)))
        # histories interleaved with Expand and Eval calls that assign (or must not)
        from props import xpgen as X
        NOGLOB, NOUNSET = X.NOGLOB, X.NOUNSET
        un = [b"x", b"y", b"z", b"1", b"#", b"IFS", b"X", "é".encode(), "日".encode(), b"\xe5", b"\xe9"]

        def aword(d=2):
            n = rnd.choice(un[:-2]).decode()
            k = rnd.random()
            inner = (lambda: aword(d - 1)) if d > 0 else (lambda: [X.L(rnd.choice(["v", "", "a b", "1"]))])
            if k < 0.06:
                # $* / $@ under a removal operator, quoted or not: the positional parameters themselves stay as they are
                pe_ = X.P(rnd.choice("*@"), rnd.choice(["%", "%%", "#", "##"]), [X.L(rnd.choice(["*", "?", "a", ".c", "a*", "*c", "p"]))])
                return [pe_] if rnd.random() < 0.6 else [X.Q('"', pe_)]
            if k < 0.22:
                return [X.P(n, rnd.choice([":=", "="]), inner())]
            if k < 0.5:
                return [X.P(n, rnd.choice([":-", "-", ":+", "+", "%", "%%", "#", "##", ":?", "?"]), inner())]
            if k < 0.6:
                return [X.P(n)]
            if k < 0.66:
                return [X.P(n, "#")]
            if k < 0.8:
                return [X.A(X.L(rnd.choice(["%s=1", "%s++", "%s+=2", "--%s", "%s=%s+1", "%s", "1/0", "%s=1/0", "(%s=3)*0", "(1 ? %s : z) = 7", "(0 ? z : %s)++", "(%s) += 2"]).replace("%s", rnd.choice(["x", "y", "z", "é", "日", "x日"]))))]
            if k < 0.86:
                # an assigning expansion inside an arithmetic expansion, its word another expansion
                v2 = rnd.choice(["x", "y", "z"])
                pe = X.P(n, rnd.choice([":=", "=", ":-", ":+"]), [X.P(v2)] if rnd.random() < 0.7 else inner())
                body = [pe, X.L(rnd.choice([" + 1", "", "*2"]))] if rnd.random() < 0.7 else [X.L("1 + "), X.Q('"', pe)]
                return [X.A(*body)]
            if k < 0.9:
                return [X.Q('"', *inner())]
            return [X.L(rnd.choice(["lit", "", "~", "a*b"]))] + inner()

        def xop():
            w = aword()
            return "X:%d:%s" % (rnd.choice([0, 0, 2, 4]), hx(" ".join(w)))

        def eop():
            v = rnd.choice(["x", "y", "z", "é", "日", "x日"]); u = rnd.choice(["x", "y", "z", "é"])
            if rnd.random() < 0.35:
                from props import c11 as A
                # (syntactically valid expressions only: on a syntax error the rule actions of the part already parsed have
                #  run, which C11 and C20 do not speak about; the model evaluates nothing in that case)
                ex = A.gen(rnd, rnd.choice([2, 3, 4]))
                toks = ex.replace("(", " ").replace(")", " ").split()
                if any(t in ("0xz", "1a") for t in toks):
                    ex = "x + 1"
                return "E:%s" % hx(A.respace(rnd, ex))
            e = rnd.choice(["%s=1", "%s++", "++%s", "%s+=%s", "%s=%s=2", "1/0", "%s=1/0", "%s", "%s = %s + 1", "09", "%s=09", "%s=(%s=4)+1", "%s--*0", "1 ? %s=5 : 0",
                            "(1 ? %s : %s) = 7", "(0 ? %s : %s)++", "--(%s ? %s : z)", "(%s ? %s : z) *= 5", "(%s) = 3", "((%s))++", "(%s, %s) = 1", "-%s = 2", "%s++ = 1", "(%s=1) = 2",
                            "(%s || %s) = 7", "(%s && %s) = 7", "(%s || 0)++", "--(%s || %s)", "(%s && %s) += 2", "(%s | %s) = 1", "(%s ^ %s)++", "(!%s) = 1", "(~%s)--",
                            "(%s == %s) = 3", "(%s < %s) -= 1", "(%s + %s) = 1", "(%s << %s) = 1", "(%s || %s) + (%s = 5)"])
            return "E:%s" % hx(e.replace("%s", v, 1).replace("%s", u))

        xcases = []
        nx = 6000 if tier == "quick" else 120000
        for _ in range(nx):
            ops = []
            for _ in range(rnd.randint(1, 10)):
                k = rnd.random()
                n = rnd.choice(un)
                if k < 0.2:
                    ops.append(opstr(("S", n, rnd.choice([b"", b"a", b"5", b"b c", b"zz"]))))
                elif k < 0.3:
                    ops.append(opstr(("U", n)))
                elif k < 0.4:
                    ops.append(opstr(("G", n)))
                elif k < 0.45:
                    ops.append("W")
                elif k < 0.8:
                    ops.append(xop())
                else:
                    ops.append(eop())
            ops += [opstr(o) for o in probe(un)]
            opts = NOGLOB | (NOUNSET if rnd.random() < 0.5 else 0) | (rnd.getrandbits(13) & ~(NOGLOB | NOUNSET) if rnd.random() < 0.3 else 0)
            xcases.append("\t".join([",".join(hx(a) for a in rnd.choice(ARGS[:3] + [[b"sh", b"foo.c", b"pa.c"], [b"sh", b"ab", b"a", b"pc"]])), str(opts), "4242", " ".join(ops)]))
        xpart = {"name": "histories-with-expand-and-eval", "harness": "c20x", "driver": "c20x", "cases": xcases,
                 "nontrivial": lambda c: "X:" in c or "E:" in c, "distribution": {"cases": nx}}
        return [xpart, {"name": "histories", "harness": "c20", "driver": "c20", "cases": cases,
                 "nontrivial": lambda c: "S," in c,
                 "distribution": {"exhaustive_len_le_%d" % min(maxlen, 3): nex, "random": nrand}},
                {"name": "option-string-all-bits", "harness": "optstr", "driver": "optstr",
                 "cases": [str(i) for i in range(1 << 14)] + [str((1 << 62) - 1), str(1 << 40)],
                 "nontrivial": lambda c: c != "0"}]

    def describe(self, part, case):
        if part != "histories":
            return "Option(%s).String()" % case
        f = case.split("\t")
        ops = []
        for o in f[3].split(" "):
            p = o.split(",")
            ops.append(p[0] + "(" + ",".join(repr(unhx(x).decode("utf-8", "replace")) for x in p[1:]) + ")")
        return "args=%s opts=%s %s" % ([unhx(x).decode("utf-8", "replace") for x in f[0].split(",")], f[1], " ".join(ops))

    def classify(self, part, case, impl, model, judge, findings):
        return None

    def shrink(self, u, C):
        if u["part"] != "histories":
            return u
        f = u["case"].split("\t")
        ops = f[3].split(" ")

        def bad(ops_):
            c = "\t".join(f[:3] + [" ".join(ops_)])
            i = C.run_harness("c20", [c])[0]
            m, j = C.run_driver("c20", [c], [i])[0]
            return (i != m or j.startswith("bad")), c, i, m, j
        changed = True
        while changed and len(ops) > 1:
            changed = False
            for k in range(len(ops)):
                t = ops[:k] + ops[k + 1:]
                b, c, i, m, j = bad(t)
                if b:
                    ops = t
                    u = dict(u, case=c, impl=i, model=m, judge=j, failing_input=j.startswith("bad"))
                    changed = True
                    break
        return u

    def replay(self, payload, C):
        sub = "c20" if payload.get("part") == "histories" else "optstr"
        c = payload["case"]
        i = C.run_harness(sub, [c])[0]
        m, j = C.run_driver(sub, [c], [i])[0]
        print("case :", self.describe(payload.get("part"), c))
        print("impl :", i)
        print("model:", m)
        print("judge:", j)
        if i != m or j.startswith("bad"):
            print("VIOLATION property=C20 replay=(replayed)")
            return 1
        print("replay: property holds on this case now")
        return 0


PROP = P()
