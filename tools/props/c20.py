"""C20 — variable store histories (Set/Unset/Get/Walk) against the store model and the abstract map."""
import itertools
import random

from common import hx, unhx

ORD = [b"x", b"X", b"y", b"IFS", b"HOME", b"", "é".encode(), b"a b", b"x=1"]
SPEC = [b"@", b"*", b"#", b"?", b"-", b"$", b"!", b"0"]
POS = [b"1", b"2", b"3", b"10", b"11", b"00", b"01", b"007", b"99999999999999999999", b"1a", b"-1"]
VALS = [b"", b"a", b"b c", b"0", "日本".encode(), b" \t\n"]
ARGS = [[b"sh"], [b"sh", b"a", b"b"], [b"sh", b""], [b"go.sh"] + [bytes([97 + i]) for i in range(11)]]


def opstr(o):
    if o[0] == "S":
        return "S,%s,%s" % (hx(o[1]), hx(o[2]))
    if o[0] in "UG":
        return "%s,%s" % (o[0], hx(o[1]))
    return "W"


def mkcase(args, opts, ops):
    return "\t".join([",".join(hx(a) for a in args), str(opts), "4242", " ".join(opstr(o) for o in ops)])


def probe(names):
    return [("G", n) for n in names] + [("W",)]


class P:
    id = "C20"
    rule = ("histories of Set/Unset/Get/Walk over ordinary, special, positional (multi-digit, leading-zero, overflow) and "
            "case-variant names; exhaustive up to length 3 over a 5-name alphabet, then random up to length 40; each history ends "
            "with Get of every universe name and Walk; a case is non-trivial when it contains at least one Set and the history is distinct")
    exhaustive = True
    assumptions = ["process environment cleared so that NewExecEnv starts from {IFS}", "os.Getpid() passed to the model as an oracle value"]

    def parts(self, seed, tier, C):
        rnd = random.Random(seed)
        cases = []
        small = [b"x", b"X", b"1", b"#", b"IFS"]
        alpha = [("S", n, v) for n in small for v in (b"a", b"")] + [("U", n) for n in small] + [("G", n) for n in small] + [("W",)]
        maxlen = 3 if tier == "quick" else 4
        for L in range(0, maxlen + 1):
            if L == 4:
                # length 4 sampled in the thorough tier
                for _ in range(60000):
                    ops = [rnd.choice(alpha) for _ in range(4)]
                    cases.append(mkcase(ARGS[1], 0, ops + probe(small)))
                continue
            for ops in itertools.product(alpha, repeat=L):
                cases.append(mkcase(ARGS[1], 0, list(ops) + probe(small)))
        nex = len(cases)
        allnames = ORD + SPEC + POS
        nrand = 4000 if tier == "quick" else 60000
        for _ in range(nrand):
            names = rnd.sample(allnames, rnd.randint(2, 8))
            ops = []
            for _ in range(rnd.randint(1, 40)):
                k = rnd.random()
                n = rnd.choice(names)
                if k < 0.4:
                    ops.append(("S", n, rnd.choice(VALS)))
                elif k < 0.55:
                    ops.append(("U", n))
                elif k < 0.9:
                    ops.append(("G", n))
                else:
                    ops.append(("W",))
            cases.append(mkcase(rnd.choice(ARGS), rnd.getrandbits(13), ops + probe(names)))
        return [{"name": "histories", "harness": "c20", "driver": "c20", "cases": cases,
                 "nontrivial": lambda c: "S," in c,
                 "distribution": {"exhaustive_len_le_%d" % min(maxlen, 3): nex, "random": nrand}},
                {"name": "option-string-all-bits", "harness": "optstr", "driver": "optstr",
                 "cases": [str(i) for i in range(1 << 14)] + [str((1 << 62) - 1), str(1 << 40)],
                 "nontrivial": lambda c: c != "0"}]

    def describe(self, part, case):
        if part != "histories":
            return "Option(%s).String()" % case
        f = case.split("\t")
        ops = []
        for o in f[3].split(" "):
            p = o.split(",")
            ops.append(p[0] + "(" + ",".join(repr(unhx(x).decode("utf-8", "replace")) for x in p[1:]) + ")")
        return "args=%s opts=%s %s" % ([unhx(x).decode("utf-8", "replace") for x in f[0].split(",")], f[1], " ".join(ops))

    def classify(self, part, case, impl, model, judge, findings):
        return None

    def shrink(self, u, C):
        if u["part"] != "histories":
            return u
        f = u["case"].split("\t")
        ops = f[3].split(" ")

        def bad(ops_):
            c = "\t".join(f[:3] + [" ".join(ops_)])
            i = C.run_harness("c20", [c])[0]
            m, j = C.run_driver("c20", [c], [i])[0]
            return (i != m or j.startswith("bad")), c, i, m, j
        changed = True
        while changed and len(ops) > 1:
            changed = False
            for k in range(len(ops)):
                t = ops[:k] + ops[k + 1:]
                b, c, i, m, j = bad(t)
                if b:
                    ops = t
                    u = dict(u, case=c, impl=i, model=m, judge=j, failing_input=j.startswith("bad"))
                    changed = True
                    break
        return u

    def replay(self, payload, C):
        sub = "c20" if payload.get("part") == "histories" else "optstr"
        c = payload["case"]
        i = C.run_harness(sub, [c])[0]
        m, j = C.run_driver(sub, [c], [i])[0]
        print("case :", self.describe(payload.get("part"), c))
        print("impl :", i)
        print("model:", m)
        print("judge:", j)
        if i != m or j.startswith("bad"):
            print("VIOLATION property=C20 replay=(replayed)")
            return 1
        print("replay: property holds on this case now")
        return 0


PROP = P()
