#!/usr/bin/env python3
"""Setup: build the whole framework from files on disk (offline): full .vo build of the Coq
development (no -vos), extraction, OCaml driver, Go harness from /repo."""
import os
import sys

sys.path.insert(0, os.path.dirname(os.path.abspath(__file__)))
import common as C  # noqa: E402

b = C.build_all()
print(b.coq_log[-4000:])
print("coq_ok=%s driver_ok=%s harness_ok=%s forbidden=%s wall=%.1fs" % (b.coq_ok, b.driver_ok, b.harness_ok, b.forbidden, b.wall))
if not b.harness_ok:
    print(b.harness_log[-3000:])
sys.exit(0 if (b.coq_ok and b.driver_ok and b.harness_ok and not b.forbidden) else 1)
