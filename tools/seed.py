#!/usr/bin/env python3
"""Seeded-change bookkeeping.

  seed.py verify <id> --src /tmp/seed-Cxx --prop C12 --demo-dir pattern [--summary "..."]
      confirm in a scratch worktree of /repo that the change builds, passes the pinned test suite, that its
      demonstration fails with it and passes without it; store it under /verif/seeded/<id>/.
  seed.py run <id> [--checks C12,C16] [--tier quick]
      apply the stored patch to /repo, run the checks, record which report a violation, undo the patch.
  seed.py table
      print the detection table (markdown) from the meta.json files.

Nothing here is a registered check; the registered checks never read /verif/seeded.
"""
import argparse, json, os, shutil, subprocess, sys, time

ROOT = os.path.dirname(os.path.dirname(os.path.abspath(__file__)))
SEEDED = os.path.join(ROOT, "seeded")
ENV = dict(os.environ, GOFLAGS="-mod=mod", GOPROXY="off", GOSUMDB="off", GOTOOLCHAIN="local")


def sh(cmd, cwd=None, timeout=1800):
    p = subprocess.run(cmd, shell=True, cwd=cwd, env=ENV, stdout=subprocess.PIPE, stderr=subprocess.STDOUT,
                       text=True, timeout=timeout)
    return p.returncode, p.stdout


def run_demo(wt, demo, demo_dir):
    if demo_dir == "@file":
        return sh("go test -vet=off -count=1 %s" % demo, cwd=wt)
    d = os.path.join(wt, demo_dir)
    created = not os.path.isdir(d)
    os.makedirs(d, exist_ok=True)
    dst = os.path.join(d, "zz_seed_demo_test.go")
    shutil.copy(demo, dst)
    try:
        return sh("go test -vet=off -count=1 -run . ./%s/" % demo_dir, cwd=wt)
    finally:
        os.remove(dst)
        if created:
            shutil.rmtree(d, ignore_errors=True)


def verify(a):
    src = a.src
    patch = os.path.join(src, "patch.diff")
    demos = sorted([f for f in os.listdir(src) if f.endswith("_test.go")], key=lambda f: (f != "demo_test.go", f))
    assert demos, "no demo"
    demo = os.path.join(src, demos[0])
    wt = "/tmp/vwt-%s" % a.id
    sh("git -C /repo worktree remove --force %s" % wt)
    rc, out = sh("git -C /repo worktree add --detach %s HEAD" % wt)
    assert rc == 0, out
    res = {}
    try:
        rc, out = sh("git apply %s" % patch, cwd=wt)
        assert rc == 0, "patch does not apply: " + out
        rc, out = sh("go build ./... && go build -tags verif ./... && go test -vet=off -count=1 ./...", cwd=wt)
        res["builds_and_suite_passes"] = rc == 0
        if rc != 0:
            print(out[-3000:])
        rc1, out1 = run_demo(wt, demo, a.demo_dir)
        res["demo_fails_with_change"] = rc1 != 0
        sh("git checkout -- .", cwd=wt)
        rc2, out2 = run_demo(wt, demo, a.demo_dir)
        res["demo_passes_without_change"] = rc2 == 0
        if rc2 != 0:
            print(out2[-3000:])
        res["demo_output_tail"] = out1[-1500:]
    finally:
        sh("git -C /repo worktree remove --force %s" % wt)
        sh("rm -rf %s" % wt)
    print(json.dumps({k: v for k, v in res.items() if k != "demo_output_tail"}))
    ok = res.get("builds_and_suite_passes") and res.get("demo_fails_with_change") and res.get("demo_passes_without_change")
    if not ok:
        print("NOT CONFIRMED")
        return 1
    dst = os.path.join(SEEDED, a.id)
    os.makedirs(dst, exist_ok=True)
    for f in os.listdir(src):
        if os.path.isdir(os.path.join(src, f)) or f.endswith((".log", ".tgz", ".tar.gz")) or os.path.getsize(os.path.join(src, f)) > 400000:
            continue
        shutil.copy(os.path.join(src, f), os.path.join(dst, f + ("" if f == demos[0] or not f.endswith("_test.go") else ".txt")))
    meta = {"id": a.id, "property": a.prop, "summary": a.summary, "demo": demos[0], "demo_dir": a.demo_dir,
            "confirmed": res, "origin": "sub-agent given only the property text and a scratch worktree",
            "detection": {}}
    mp = os.path.join(dst, "meta.json")
    if os.path.exists(mp):
        old = json.load(open(mp))
        meta["detection"] = old.get("detection", {})
    json.dump(meta, open(mp, "w"), indent=1)
    print("stored", dst)
    return 0


def run(a):
    dst = os.path.join(SEEDED, a.id)
    meta = json.load(open(os.path.join(dst, "meta.json")))
    checks = a.checks.split(",") if a.checks else [meta["property"]]
    rc, out = sh("git -C /repo status --porcelain")
    assert out.strip() == "", "/repo not clean: " + out
    # a patch re-based on the current /repo (the original no longer applies after later commits) takes precedence
    pf = os.path.join(dst, "patch_head.diff")
    if not os.path.exists(pf):
        pf = os.path.join(dst, "patch.diff")
    rc, out = sh("git -C /repo apply %s" % pf)
    assert rc == 0, out
    try:
        for c in checks:
            t0 = time.time()
            rc, out = sh("python3 tools/check.py %s --tier %s" % (c, a.tier), cwd=ROOT, timeout=7200)
            viol = [l for l in out.splitlines() if l.startswith("VIOLATION")]
            meta["detection"][c + ":" + a.tier] = {"exit": rc, "violations": viol[:5], "wall_s": round(time.time() - t0, 1),
                                                 "caught": rc == 1 and bool(viol)}
            print(c, a.tier, "exit", rc, viol[:3])
            if rc not in (0, 1) or (rc == 1 and not viol):
                print(out[-2000:])
    finally:
        sh("git -C /repo checkout -- .")
        sh("git checkout -- evidence", cwd=ROOT)
    json.dump(meta, open(os.path.join(dst, "meta.json"), "w"), indent=1)
    return 0


def table(a):
    print("| seeded change | property | what it does | caught by | missed by |")
    print("|---|---|---|---|---|")
    for d in sorted(os.listdir(SEEDED)):
        mp = os.path.join(SEEDED, d, "meta.json")
        if not os.path.exists(mp):
            continue
        m = json.load(open(mp))
        c = [k for k, v in m["detection"].items() if v["caught"]]
        n = [k for k, v in m["detection"].items() if not v["caught"]]
        print("| %s | %s | %s | %s | %s |" % (m["id"], m["property"], m["summary"], ", ".join(c) or "-", ", ".join(n) or "-"))
    return 0


if __name__ == "__main__":
    ap = argparse.ArgumentParser()
    sub = ap.add_subparsers(dest="cmd")
    v = sub.add_parser("verify"); v.add_argument("id"); v.add_argument("--src", required=True)
    v.add_argument("--prop", required=True); v.add_argument("--demo-dir", required=True); v.add_argument("--summary", default="")
    r = sub.add_parser("run"); r.add_argument("id"); r.add_argument("--checks", default=""); r.add_argument("--tier", default="quick")
    sub.add_parser("table")
    a = ap.parse_args()
    sys.exit({"verify": verify, "run": run, "table": table}[a.cmd](a))
