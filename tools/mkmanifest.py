#!/usr/bin/env python3
"""Regenerates /verif/MANIFEST.json from the table below (kept next to the checks so it stays current)."""
import json
import os

VERIF = os.path.normpath(os.path.join(os.path.dirname(os.path.abspath(__file__)), ".."))

BASE_NOTE = ("Trusted: Coq 8.16.1 kernel (vm_compute used, native_compute not), tools/extract_consts.py, extraction with "
             "ExtrOcamlBasic only, OCaml driver, Go harness, tools/*.py. The model is hand-written Gallina tied to /repo by the "
             "translated tables (coq/gen/Extracted.v, regenerated on every run) and by the correspondence check (differential, not a proof). ")

CLAIMED = {
    "C20": dict(
        text=("Proved for every history and every store contents (induction over the op list): the store model refines the abstract map "
              "name->last value set (Get/Walk observations equal, Walk lists exactly the live entries once), Set on special/positional "
              "names is the identity on the whole environment, their values depend on Args/Opts only. The model is tied to interp.go by "
              "exhaustive histories up to length 3 plus random ones up to length 40 and by all 2^14 Option values."),
        note=BASE_NOTE + "Modelled, not verified: Go map, os.Environ (cleared by the harness), os.Getpid (oracle value).",
        technique="Coq refinement proof (store model -> abstract map) + differential correspondence model vs interp.ExecEnv",
        design="6 C20"),
    "C12": dict(
        text=("Proved for every pattern item list and every subject (induction on the items; key lemmas: monotonicity of the extreme "
              "remainder in the start position, extreme-start specifications of the greedy/lazy star, the leftmost search and Match's "
              "shrinking loop): in each of the four modes the model of Match returns exactly the longest/shortest matching prefix/suffix, or "
              "no match when none exists; several patterns match iff one does; the oracle matcher decides the denotation. The model "
              "(compile -> regex items + emitted regex text, Go regexp class parser, leftmost-first priorities) is tied to pattern.go by "
              "comparing the emitted regex source (hook VerifCompile) and Match's answer on all patterns <=3 symbols x subjects <=2 symbols x 4 "
              "modes (quick; thorough <=4 x <=3) over the property's alphabets plus random longer ones. Not proved: that the pattern-to-items "
              "parser agrees with POSIX bracket-expression syntax (it is the shared definition of the pattern AST); Go's regexp itself is modelled."),
        note=BASE_NOTE + "Modelled, not verified: Go regexp (syntax of the emitted subset and leftmost-first semantics), utf8 decoding. "
             "Outside the modelled subset (skipped): [.x.] / [=x=] inside brackets, brackets that Go closes elsewhere than compile.",
        technique="Coq proof that priority backtracking yields the extreme affix + differential correspondence (regex text and Match results)",
        design="6 C12"),
    "C11": dict(
        text=("Model: tokenizer, parser for arith.go.y's productions, the rule-action evaluator (values computed bottom-up, all operands of && || ?: "
              "evaluated, lazy variable lookup, nothing evaluated after the first fault), strconv.ParseInt/Itoa and Go int arithmetic; spec: C "
              "big-step semantics with short-circuit. Proved (all expressions, all stores): evaluation changes the store only at the names under "
              "= op= ++ -- and never touches Args/Opts (C11_partial_...). The full refinement statement impl = C on C-defined, eager-safe "
              "expressions is stated in Props/C11.v but NOT yet proved; it is decided on every run by the C oracle on the implementation's "
              "answers (all depth<=2 trees over the property's operands x variable values, sampled depth 3-4, random spacing/parentheses). "
              "Known finding F11 (no short-circuit) is reported as KNOWN-FINDING."),
        note=BASE_NOTE + "Modelled, not verified: strconv.ParseInt/Itoa, unicode.IsLetter/IsDigit (table on a declared universe, checked against Go "
             "on every run), goyacc's LALR tables (the model parses the same productions by precedence climbing; agreement is by correspondence).",
        technique="Coq frame theorem on the rule-action evaluator + differential correspondence + C-semantics oracle extracted from Coq",
        design="6 C11"),
    "C13": dict(
        text=("Proved (every environment, name other than @/*, word, mode, field context): the operator switch of expandParam performs exactly "
              "the action of the POSIX table for :- - := = :? ? :+ + in each parameter state, assignment to special/positional parameters is "
              "an error, and an unused word has no influence on fields or store. Not proved (oracle + correspondence only): $@/$* field rules, "
              "${#p}, the four removal operators (reduce to C12), nounset. Correspondence: full product operators x states x parameter kinds "
              "x quoting x operator words x nounset x IFS. Known finding F18 (\"$@\" with no parameters) is reported as KNOWN-FINDING."),
        note=BASE_NOTE + "Modelled, not verified: os/user lookup (oracle table probed by the harness), pattern.Match through the C12 model.",
        technique="Coq case-analysis proof of the POSIX table on the expandParam model + differential correspondence + table oracle",
        design="6 C13"),
    "C14": dict(
        text=("Model of split/Expand's default mode and an independent specification (cut at every unquoted IFS character, keep pieces with a "
              "character or a quoted part). Proved: a field of quoted segments is never cut; an empty IFS disables splitting. The full statement "
              "split_model = split_spec is stated in Props/C14.v but NOT yet proved; it is decided on every run by evaluating the extracted "
              "specification on the implementation's answers for all words of <=4 (quick) / <=6 (thorough) segments over 9 segment kinds x 7 IFS "
              "settings plus random longer words, and by model correspondence."),
        note=BASE_NOTE + "Modelled, not verified: unicode.IsSpace (White_Space list), utf8 decoding. Pathname expansion disabled as the property says.",
        technique="Coq lemmas on the splitter model + differential correspondence + splitting specification extracted from Coq as oracle",
        design="6 C14"),
    "C16": dict(
        text=("Model of Glob (component loop, literal fast path, directory scan with the hidden-name rule, separator search) over an abstract "
              "file-system tree, and an independent component-wise specification built on C12's denotation. Proved: the sorting step returns an "
              "ascending permutation. The full statement glob_model = glob_spec is stated in Props/C16.v but NOT yet proved; it is decided on "
              "every run by evaluating the extracted specification on the implementation's answers over random materialised trees (files, "
              "directories, dot files, dangling symlinks, metacharacter and multi-byte names) with patterns generalised from the tree, and by "
              "model correspondence; the harness also Lstat()s every returned path."),
        note=BASE_NOTE + "Modelled, not verified: the OS file system (os.Lstat/Stat/Open/Readdirnames as path resolution on a tree; no symlinks "
             "other than dangling ones, no permissions, no concurrent modification).",
        technique="Coq lemmas on the Glob model + differential correspondence on materialised trees + specification extracted from Coq as oracle",
        design="6 C16"),
}

PENDING_REASON = "check under construction in this session; not claimed until its theorems and correspondence run green"


def main():
    props = [json.loads(l) for l in open(os.path.join(VERIF, "properties.jsonl"))]
    checks, na = [], []
    for p in props:
        pid = p["id"]
        if pid in CLAIMED:
            c = CLAIMED[pid]
            checks.append({
                "property_id": pid,
                "quick_cmd": "python3 tools/check.py %s --tier quick" % pid,
                "thorough_cmd": "python3 tools/check.py %s --tier thorough" % pid,
                "evidence_file": "/verif/evidence/%s.json" % pid,
                "replay_cmd_template": "python3 tools/check.py %s --replay {path}" % pid,
                "engine": "coq-proof+correspondence",
                "level_claimed": {"category": "proof", "text": c["text"], "design_ref": "DESIGN.md section " + c["design"]},
                "level_note": c["note"],
                "technique": c["technique"],
            })
        else:
            na.append({"property_id": pid, "reason": PENDING_REASON})
    m = {
        "version": 1,
        "setup_cmd": "python3 tools/setup.py",
        "hooks": {
            "guard": "verif",
            "enable": "go build -tags verif (the harness module replaces github.com/hattya/go.sh by /repo)",
            "baseline_off_cmd": "cd /repo && GOFLAGS=-mod=mod GOPROXY=off GOSUMDB=off GOTOOLCHAIN=local go test -vet=off -count=1 ./...",
            "source_commits": [],
            "add_only": True,
        },
        "engines": [{
            "name": "coq-proof+correspondence", "path": "/verif/coq, /verif/ocaml, /verif/harness, /verif/tools",
            "serves_properties": sorted(CLAIMED),
            "kind_free_text": "Gallina models + theorems (Coq 8.16.1), models extracted to OCaml and run against the Go implementation on the same cases",
        }],
        "checks": checks,
        "not_applicable": na,
        "notes": "See DESIGN.md. KNOWN_FINDINGS.jsonl lists genuine defects (open) and repaired ones (fixed).",
    }
    with open(os.path.join(VERIF, "MANIFEST.json"), "w") as f:
        json.dump(m, f, indent=1)
    print("MANIFEST.json: %d checks, %d not claimed" % (len(checks), len(na)))


if __name__ == "__main__":
    main()
