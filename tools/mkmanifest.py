#!/usr/bin/env python3
"""Regenerates /verif/MANIFEST.json from the table below (kept next to the checks so it stays current)."""
import json
import os

VERIF = os.path.normpath(os.path.join(os.path.dirname(os.path.abspath(__file__)), ".."))

BASE_NOTE = ("Trusted: Coq 8.16.1 kernel (vm_compute used, native_compute not), tools/extract_consts.py, extraction with "
             "ExtrOcamlBasic only, OCaml driver, Go harness, tools/*.py. The model is hand-written Gallina tied to /repo by the "
             "translated tables (coq/gen/Extracted.v, regenerated on every run) and by the correspondence check (differential, not a proof). ")

CLAIMED = {
    "C20": dict(
        text=("Proved for every history and every store contents (induction over the op list): the store model refines the abstract map "
              "name->last value set (Get/Walk observations equal, Walk lists exactly the live entries once), Set on special/positional "
              "names is the identity on the whole environment, their values depend on Args/Opts only. The model is tied to interp.go by "
              "exhaustive histories up to length 3 plus random ones up to length 40 and by all 2^14 Option values."),
        note=BASE_NOTE + "Modelled, not verified: Go map, os.Environ (cleared by the harness), os.Getpid (oracle value).",
        technique="Coq refinement proof (store model -> abstract map) + differential correspondence model vs interp.ExecEnv",
        design="6 C20"),
}

PENDING_REASON = "check under construction in this session; not claimed until its theorems and correspondence run green"


def main():
    props = [json.loads(l) for l in open(os.path.join(VERIF, "properties.jsonl"))]
    checks, na = [], []
    for p in props:
        pid = p["id"]
        if pid in CLAIMED:
            c = CLAIMED[pid]
            checks.append({
                "property_id": pid,
                "quick_cmd": "python3 tools/check.py %s --tier quick" % pid,
                "thorough_cmd": "python3 tools/check.py %s --tier thorough" % pid,
                "evidence_file": "/verif/evidence/%s.json" % pid,
                "replay_cmd_template": "python3 tools/check.py %s --replay {path}" % pid,
                "engine": "coq-proof+correspondence",
                "level_claimed": {"category": "proof", "text": c["text"], "design_ref": "DESIGN.md section " + c["design"]},
                "level_note": c["note"],
                "technique": c["technique"],
            })
        else:
            na.append({"property_id": pid, "reason": PENDING_REASON})
    m = {
        "version": 1,
        "setup_cmd": "python3 tools/setup.py",
        "hooks": {
            "guard": "verif",
            "enable": "go build -tags verif (the harness module replaces github.com/hattya/go.sh by /repo)",
            "baseline_off_cmd": "cd /repo && GOFLAGS=-mod=mod GOPROXY=off GOSUMDB=off GOTOOLCHAIN=local go test -vet=off -count=1 ./...",
            "source_commits": [],
            "add_only": True,
        },
        "engines": [{
            "name": "coq-proof+correspondence", "path": "/verif/coq, /verif/ocaml, /verif/harness, /verif/tools",
            "serves_properties": sorted(CLAIMED),
            "kind_free_text": "Gallina models + theorems (Coq 8.16.1), models extracted to OCaml and run against the Go implementation on the same cases",
        }],
        "checks": checks,
        "not_applicable": na,
        "notes": "See DESIGN.md. KNOWN_FINDINGS.jsonl lists genuine defects (open) and repaired ones (fixed).",
    }
    with open(os.path.join(VERIF, "MANIFEST.json"), "w") as f:
        json.dump(m, f, indent=1)
    print("MANIFEST.json: %d checks, %d not claimed" % (len(checks), len(na)))


if __name__ == "__main__":
    main()
