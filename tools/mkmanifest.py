#!/usr/bin/env python3
"""Regenerates /verif/MANIFEST.json from the table below (kept next to the checks so it stays current)."""
import json
import os

VERIF = os.path.normpath(os.path.join(os.path.dirname(os.path.abspath(__file__)), ".."))

BASE_NOTE = ("Trusted: Coq 8.16.1 kernel (vm_compute used, native_compute not), tools/extract_consts.py, extraction with "
             "ExtrOcamlBasic only, OCaml driver, Go harness, tools/*.py. The model is hand-written Gallina tied to /repo by the "
             "translated tables (coq/gen/Extracted.v, regenerated on every run) and by the correspondence check (differential, not a proof). ")

CLAIMED = {
    "C20": dict(
        text=("Proved for every history and every store contents (induction over the op list): the store model refines the abstract map "
              "name->last value set (Get/Walk observations equal, Walk lists exactly the live entries once), Set on special/positional "
              "names is the identity on the whole environment, their values depend on Args/Opts only. Proved for every word, mode, environment "
              "and recursion budget: the model of Expand returns (with the fields or with an error) an environment with the same Args and Opts; "
              "Eval changes the store only at the names under = op= ++ -- and never Args/Opts. The model is tied to interp.go by exhaustive "
              "histories up to length 3 plus random ones up to length 40, by histories interleaved with Expand and Eval calls (store, Args and "
              "Opts compared after each call; a judge on the implementation's own observations: an unset-error leaves the name unassigned, "
              "only names under an assigning construct change) and by all 2^14 Option values. NOT proved: that Expand changes variables only "
              "through := = and arithmetic (decided by that judge and the correspondence)."),
        note=BASE_NOTE + "Modelled, not verified: Go map, os.Environ (cleared by the harness), os.Getpid (oracle value).",
        technique="Coq refinement proof (store model -> abstract map) + frame theorems for Expand/Eval + differential correspondence on histories with Expand and Eval calls",
        design="5 C20"),
    "C12": dict(
        text=("Proved for every pattern item list and every subject (induction on the items; key lemmas: monotonicity of the extreme "
              "remainder in the start position, extreme-start specifications of the greedy/lazy star, the leftmost search and Match's "
              "shrinking loop): in each of the four modes the model of Match returns exactly the longest/shortest matching prefix/suffix, or "
              "no match when none exists; several patterns match iff one does; the oracle matcher decides the denotation. The model "
              "(compile -> regex items + emitted regex text, Go regexp class parser, leftmost-first priorities) is tied to pattern.go by "
              "comparing the emitted regex source (hook VerifCompile) and Match's answer on all patterns <=3 symbols x subjects <=2 symbols x 4 "
              "modes (quick; thorough <=4 x <=3) over the property's alphabets plus random longer ones, structured bracket expressions (collating symbols, "
              "equivalence classes, named, negated and unknown class names) and lists of 2-5 patterns with empty patterns at every place; a bracket expression "
              "holding [:^name:] is proved rejected, [[.x.]] proved to be the class of x. Not proved: that the pattern-to-items "
              "parser agrees with POSIX bracket-expression syntax (it is the shared definition of the pattern AST); Go's regexp itself is modelled."),
        note=BASE_NOTE + "Modelled, not verified: Go regexp (syntax of the emitted subset and leftmost-first semantics), utf8 decoding. "
             "Collating symbols and equivalence classes are modelled (one character: itself; otherwise rejected). Outside the modelled subset (skipped): brackets that Go closes elsewhere than compile.",
        technique="Coq proof that priority backtracking yields the extreme affix + differential correspondence (regex text and Match results)",
        design="5 C12"),
    "C11": dict(
text=("Model: tokenizer, parser for arith.go.y's productions, the rule-action evaluator (values computed bottom-up, all operands of && || ?: "
              "evaluated, lazy variable lookup, nothing evaluated after the first fault), strconv.ParseInt/Itoa and Go int arithmetic; spec: C "
              "big-step semantics with short-circuit. Proved (all expressions, all stores): C11_refines_C -- on every C-defined expression whose "
              "skipped operands are inert (the complement of known finding F11) and whose variables hold numbers, assignments, compound "
              "assignments, ++ and -- included, the evaluator returns C's value and leaves C's store, and fails exactly when C's evaluation "
              "fails (the delayed reads are unobservable by independence of the operands; every value stays in the int64 range; Itoa then "
              "ParseInt is the identity on that range: C11_written_values_are_read_back); evaluation changes the store only at the names under "
              "= op= ++ -- and never touches Args/Opts. Tie on every run: model correspondence and the C oracle on the implementation's answers "
              "(all depth<=2 trees over the property's operands x variable values, sampled depth 3-4, random spacing/parentheses). Known finding "
              "F11 (no short-circuit) is reported as KNOWN-FINDING."),
        note=BASE_NOTE + "Modelled, not verified: strconv.ParseInt/Itoa, unicode.IsLetter/IsDigit (table on a declared universe, checked against Go "
             "on every run), goyacc's LALR tables (the model parses the same productions by precedence climbing; agreement is by correspondence).",
        technique="Coq refinement proof (rule-action evaluator = C semantics on C-defined, eager-safe expressions) + differential correspondence + C-semantics oracle extracted from Coq",
        design="5 C11"),
    "C13": dict(
        text=("Proved (every environment, name other than @/*, word, mode, field context): the operator switch of expandParam performs exactly "
              "the action of the POSIX table for :- - := = :? ? :+ + in each parameter state, assignment to special/positional parameters is "
              "an error, and an unused word has no influence on fields or store; ${p}/$p give the value, nothing for null, nothing or (nounset) an error for unset; "
              "${#p} is the rune count of the value, 0 for null/unset, an error for unset under nounset; $@ gives one field per positional parameter and $* the same "
              "unquoted or, in double quotes, one field joined by the first IFS character; ${p%w} ${p%%w} ${p#w} ${p##w} on a non-null parameter expand w in Pattern mode "
              "and return the value without the shortest/longest suffix/prefix that the compiled pattern matches as a whole (C12's denotation), the whole value when none does. "
              "Not proved (oracle + correspondence only): the table and removal operators applied to $@/$* themselves. Correspondence: full product operators x states x parameter kinds "
              "x quoting x operator words x nounset x IFS. \"$@\" without positional parameters is proved to give no field (F18, repaired), and so is a word of $@ only under mode Quote (X77, repaired)."),
        note=BASE_NOTE + "Modelled, not verified: os/user lookup (oracle table probed by the harness), pattern.Match through the C12 model.",
        technique="Coq case-analysis proof of the POSIX table on the expandParam model + differential correspondence + table oracle",
        design="5 C13"),
    "C14": dict(
        text=("Model of split/Expand's default mode (byte offsets, ws flag, trailing-field rule transcribed from expand.go) and an independent "
              "specification (cut at every unquoted IFS character, keep pieces with a character or a quoted part). Proved, for every IFS value and "
              "every field, valid UTF-8 or not: split_model = split_spec (C14_split_refines_spec; by an offset-free refinement of the inner loop, "
              "then an invariant relating the last field + pending text to the specification's piece under construction); corollaries: quoted "
              "segments are never cut, an empty IFS disables splitting. Tie to the code on every run: model correspondence and the extracted "
              "specification evaluated on the implementation's answers for all words of <=4 (quick) / <=6 (thorough) segments over 9 segment kinds "
              "x 7 IFS settings, random longer words, and values with invalid UTF-8 under IFS containing U+FFFD / invalid bytes (found X47)."),
        note=BASE_NOTE + "Modelled, not verified: unicode.IsSpace (White_Space list), utf8 decoding. Pathname expansion disabled as the property says.",
        technique="Coq refinement proof (splitter model = cut-at-unquoted-IFS specification, all inputs) + differential correspondence + specification extracted from Coq as oracle",
        design="5 C14"),
    "C16": dict(
text=("Model of Glob (component loop, literal fast path, directory scan with the hidden-name rule, separator search, sort after every "
              "component, early exit) over an abstract file-system tree, and an independent component-wise specification built on C12's denotation. "
              "Proved, for every tree whose names contain no separator, every working directory and every pattern: when the model returns paths "
              "they are exactly the specification's list, ascending, each once (C16_glob_exact; Pattern/GlobExact.v: the matcher Glob uses is the "
              "denotation, a compiled component starts with a literal period exactly when its text does, every step of the loop is a permutation "
              "of the specification's step, appending a separator keeps the order because no path is a proper prefix of another, and an ascending "
              "permutation is unique). Tie on every run: model correspondence on materialised random trees (symlinks included) and the extracted "
              "specification evaluated on the implementation's own answers."),
        note=BASE_NOTE + "Modelled, not verified: the OS file system (os.Lstat/Stat/Open/Readdirnames as path resolution on a tree; no symlinks "
             "other than dangling ones, no permissions, no concurrent modification).",
        technique="Coq refinement proof (Glob model = component-wise specification, every tree and pattern) + differential correspondence on materialised trees + extracted specification as oracle",
        design="5 C16"),
    "C01": dict(
        text=("Proved: (1) the bail-out of both lexer goroutines never crashes the process under either panicnil setting -- what they panic with and "
              "what run() filters is translated from the source on every run, so re-introducing panic(nil) breaks the theorem; (2) progress of the "
              "two-goroutine protocol model: every reachable configuration can move, has returned, or is the here-document stand-off excluded by "
              "construction; (3) the alias stack holds pairwise distinct names, so its depth is bounded by the table (cyclic tables terminate). NOT "
              "proved: termination / panic-freedom of the 1700-line scanner itself; decided on every run by exhaustive inputs (all strings <=4 symbols "
              "over 22 significant characters, <=3 over those plus reserved words, generated programs, mutants, truncations) in isolated workers under "
              "panicnil=0 and 1, five source kinds, 14 alias tables, with a per-call watchdog."),
        note=BASE_NOTE + "Modelled, not verified: Go runtime (recover, select, goroutines), bufio/strings readers. Termination is observed with a 3 s watchdog.",
        technique="Coq theorems on the bail-out sentinel (translated), the protocol LTS (progress) and the alias stack + exhaustive crash/hang search in isolated workers",
        design="5 C01"),
    "C04": dict(
        text=("Proved: the line/column bookkeeping of read() makes the cursor the character position of the consumed prefix (columns count characters), "
              "unread() undoes exactly one read(); the End()/Pos() methods of the word parts (Lit, Quote, ParamExp, CmdSubst, ArithExp, Word; Ast/Ends.v, transcribed and "
              "recomputed by the extracted model from the positions the parser stored, on every run): when the positions stored in a part are those of text written "
              "contiguously (any nesting of $name, ${name}, ${#name}, ${name op word}, the three quotings, literals with newlines), End() is the position following that "
              "text, Pos() the position where it begins, Pos <= End; a literal ends where the reading cursor stands after its characters (UTF-8 decode-after-encode "
              "round trip proved, Base/Utf8.v). NOT proved: the offsets at the ~40 mark() sites and the Pos()/End() methods of the command nodes; decided on every "
              "run by an intrinsic checker on (source, AST): the text at every stored position spells the documented token, Pos<=End, non-zero End, "
              "children inside parents, siblings increasing, over generated programs in plain and rich layouts with multi-byte names. Known finding "
              "F28 (here-document extent vs enclosing End()) and F66 (End() past the line when a line continuation directly precedes a closing quote or brace) are reported as KNOWN-FINDING."),
        note=BASE_NOTE + "Sources without aliases, as the property states; documented exclusions: line continuations, Comment.End.",
        technique="Coq theorems on the cursor model and on the transcribed End()/Pos() methods of word parts (recomputed on the implementation's ASTs) + intrinsic position checker",
        design="5 C04"),
    "C06": dict(
        text=("Proved on the protocol model (lexer = deterministic emitting program, parser = deterministic automaton, unbuffered channel, cancel observed "
              "at emit / here-document wait only, order-independent error slot, join before return), for all programs/automata: every two maximal "
              "runs (schedules) end in the same configuration (strong diamond + generic confluence lemma); at return the lexer has exited and no step "
              "is possible; nothing is delivered after cancellation. Tied to the code by hooks at every synchronisation point: each input runs under "
              "perturbation seeds x GOMAXPROCS{1,2,16}; results must be identical; runtime monitors check the model's invariants (no delivery after "
              "cancel, rendezvous count, every joined lexer exited); goroutine count and reader position after return; race-detector build."),
        note=BASE_NOTE + "Not expressible in the model (named): the Go memory model, scheduler fairness, a blocking ReadRune. Interleavings on the real code are "
             "perturbed, not enumerated.",
        technique="Coq confluence proof of the protocol LTS + hook-driven schedule perturbation, runtime invariant monitors, race detector",
        design="5 C06"),
    "C07": dict(
        text=("Proved for every program over the ReadRune/UnreadRune interface (the lexer is one), every source and state: text beyond the inspected "
              "prefix influences neither result, outputs nor final reader position (prefix locality); the reader never stands beyond what was inspected; "
              "the second of two successive calls on one reader gives what the same program gives on the text that begins where the first call stopped, "
              "same outputs, and stops at the corresponding place (successive_calls; sequencing lemma run_bind). "
              "NOT proved: that the lexer stops exactly after the terminating newline of one complete command; decided on every run on concatenated "
              "streams of 2-6 generated command lines through a custom RuneScanner and a strings.Reader (offset after each call, result equal to the "
              "separate parse, blank lines empty) and by re-parsing each command with arbitrary text substituted beyond its inspected prefix."),
        note=BASE_NOTE + "Trusted: that all input of the lexer goes through read()/unread() (grep-checked).",
        technique="Coq prefix-locality theorem for effect programs + stream consumption and prefix-substitution checks on the implementation",
        design="5 C07"),
    "C08": dict(
        text=("Proved: under every schedule of the protocol model redirections are popped in push order (k-th body to k-th operator); for a quoted "
              "delimiter the reader model returns every body whose lines differ from the delimiter byte for byte (empty first line included), recognises "
              "the tab-indented delimiter for <<-, stops right after it, and reports a missing delimiter as an error. The reader model is tied to "
              "lexHeredoc by correspondence (body, delimiter line, unread rest, error) on random literal here-documents. For an unquoted delimiter (bodies "
              "without $ and backquote; Lex/HeredocExp.v, same correspondence): logical lines -- physical lines joined by backslash-newline -- that differ from the "
              "delimiter go to the body with the continuations removed and every other backslash pair kept, the first logical line equal to the delimiter ends it "
              "(a continued physical line that spells it does not), a missing delimiter is an error. Quote removal of the delimiter word (Lex/DelimUnquote.v): for "
              "every word of literal quotings, nested ones included, the delimiter is the text and the word counts as quoted; a plain literal does not. NOT proved: "
              "$ and backquote expansions inside bodies; decided by the generator-driven check (expected operator, body, delimiter line, quoting per here-document "
              "in source order, at every redirection site)."),
        note=BASE_NOTE + "Backslash-newline inside an expanding body is a line continuation (removed), treated like the documented exclusion of C04.",
        technique="Coq FIFO theorem (protocol LTS), literal- and expanding-body reader theorems and delimiter quote-removal theorem, with correspondence + generator-driven here-document check",
        design="5 C08"),
    "C10": dict(
        text=("Proved: the error slot's merge rule (translated concept: rank 0 read error, 1+position syntax errors, keep the minimum) keeps the read "
              "error whatever is reported before or after it, in any order; the reader interpreter notices every failing read; for every program over the reader "
              "interface and every source failing from position k on, the program has been told of the failure once it has inspected position k, and a program that "
              "was never told has run exactly as on the whole input (same result, outputs and final reader state). Tied to the code by "
              "the complete set of single-fault positions of generated programs and short strings through a fault-injecting RuneScanner that records "
              "whether the failing read was reached."),
        note=BASE_NOTE + "io.Reader sources go through bufio (forwards the error); only the RuneScanner kind carries the injector.",
        technique="Coq sticky-error theorem on the slot merge + exhaustive single-fault injection on the implementation",
        design="5 C10"),
    "C15": dict(
        text=("Proved for every rune string, every following text (end of input / blank / operator), every environment and every mode that consults no "
              "pathname oracle: the scanner model returns one word for the single-quoted, double-quoted (with $ ` \" \\ escaped) and backslash-each "
              "renderings, and expanding it yields exactly one field equal to the string (escaped in Pattern mode), store unchanged; any word of such "
              "quoted parts (mixed style) expands to the concatenation. The scanner model is tied to the lexer by comparing the word AST the parser "
              "builds for every string <=2 (thorough 3) symbols over 30 special characters in the three styles; the expansion model by C13/C14's "
              "correspondence. Pattern mode ('escaped so that they match only themselves'): the set of escaped characters is read from the source; proved for every rune string "
              "that the pattern compiler turns the escaped text into literal items only, one per character, and that a bracket expression whose content is quoted text "
              "compiles to one class whose members are exactly the characters of the text (no range, no negation, no early end; Expand/QuotedLiteral.v), with byte-level "
              "corollaries for ASCII text; the harness checks the escaped form semantically and quoted text inside unquoted bracket expressions. "
              "NOT proved: default mode with pathname expansion enabled (observed with matching files present); decoding of non-ASCII pattern bytes into runes (correspondence)."),
        note=BASE_NOTE + "The scanner model covers the quoting fragment only ($, backquote, # at word start are outside it).",
        technique="Coq round-trip theorems (scanner model + expansion model) + scanner correspondence + adversarial-environment expansion check",
        design="5 C15"),
    "C17": dict(
        text=("Proved: the stack of aliases being expanded holds pairwise distinct alias names, its depth is bounded by the table, a name is never "
              "expanded inside its own expansion (termination for every table incl. cycles). Character stream under substitution (Lex/AliasStream.v, a model of "
              "lexer.read / unread / subst replayed on every run against the events of the real lexer, hook VerifAliasHook): the text still to be read is the unread "
              "parts of the alias values, innermost first, then the source; one read returns its first character whichever exhausted entries it drops; unread restores it; "
              "a substitution makes the text to come the alias value (trailing blanks replaced by one blank) followed by what followed the word, also inside a value "
              "(textual replacement, repeated); the guard refuses every name on the stack; any sequence of the three operations keeps the names distinct and the depth "
              "within the table; the blank flag says exactly that the value ends in a blank and is pending once the value is read to its end. NOT proved: that the "
              "tokens the lexer forms from that character stream are those of the replaced text at command position only (which words are examined); decided on "
              "every run: command structures rendered folded (alias names at command position) and unfolded (reference replacement incl. chains, "
              "cycles, chained trailing blanks) from the same random stream must parse to the same skeleton; alias names as arguments, quoted, "
              "as assignment words are never replaced."),
        note=BASE_NOTE + "The reference replacement is the generator's own implementation of the rule in the property text (validated against bash and dash while building).",
        technique="Coq alias-stack and character-stream (textual replacement) theorems + event-replay correspondence with the lexer + folded/unfolded differential check",
        design="5 C17"),
    "C18": dict(
        text=("Proved: a writer failing before the whole output is accepted is reported by the buffered writer for every write sequence and buffering "
              "schedule; the temporarily hidden separators are all restored by the deferred undos in any nesting, also when a node is trimmed twice. "
              "For words of literal quotings the printed form, scanned and printed again, is proved to be the same text (Lex/Reprint.v; notation model compared with "
              "printer.Fprint on every run). NOT proved: idempotence of the layout; decided on every run: print(parse(print t)) = print t, two prints equal, deep dump of the tree "
              "unchanged, writers failing after every k, over generated programs x 16 pairwise-covering Configs (every 16th program: all 256)."),
        note=BASE_NOTE + "bufio is abstracted to an arbitrary flush schedule.",
        technique="Coq theorems on the buffered-writer and trim/undo models + print/parse/print fix-point check under all styles",
        design="5 C18"),
    "C02": dict(
        text=("Token level. The grammar of parser.go.y is written as a derivation relation over token lists (Parse/GrammarSpec.v); the model of the "
              "generated parser with its rule actions is a fuelled predictive parser that builds the position-free skeleton of the AST. Proved, for all "
              "token lists: every derivable program is accepted with all tokens consumed and exactly the derivation's skeleton (completeness); conversely every "
              "accepted input has a derivation with that skeleton (soundness); the skeleton is unique; the model always answers -- it accepts "
              "exactly the programs of the grammar and rejects the rest, its recursion budget 10*(tokens+2) always suffices (GrammarBudget.v). Tie to the code on every run: the "
              "tokens the real parser received (hook VerifTokenHook) are fed to the extracted model and its verdict/skeleton/error token are compared "
              "with ParseCommands' error, AST skeleton and error position, on generated programs, token mutants (incl. glued composite words), short "
              "strings and words in NAME/IO-number/assignment positions. Lexing half (source text -> tokens, reserved-word recognition) is NOT proved: "
              "it is decided by a derivation generator that renders token lists with random layout and compares delivered tokens and skeleton."),
        note=BASE_NOTE + "Modelled, not verified: goyacc's LALR tables and driver (the model is an LL-style parser for the same productions), the lexer.",
        technique="Coq soundness+completeness proof of the grammar model against a derivation relation + token-tap correspondence + derivation generator",
        design="5 C02"),
    "C03": dict(
        text=("Token level (same model as C02). Proved for all token lists: whatever is accepted is a sentence with every token accounted for in the tree "
              "(none dropped or re-associated), a reported syntax error implies that no derivation exists, every token list that is not a sentence is "
              "rejected (the model never runs out of budget), and the error designates a received token. On every run: (a) the model judges the "
              "token stream delivered to the real parser: ParseCommands must fail whenever the model rejects, at the token the model stops at when the "
              "message is a parser-side 'unexpected ...'; (b) implementation side: every reported syntactic failure is a parser.Error with the caller's "
              "name and a line:column inside the consumed text at the start of a token, for all single-token mutations (deletion, insertion, duplication, "
              "swap, glued expansions) of generated programs, truncations, and all strings <=3 symbols over 22 characters + 13 reserved words. Not "
              "proved: lexer-side errors (unterminated quotes, expansions, here-documents) are only observed."),
        note=BASE_NOTE + "Modelled, not verified: goyacc tables and error recovery, the lexer. bash/dash were reference recognisers while building only.",
        technique="Coq proof (accepted <=> derivable, rejected => not derivable) on the grammar model + token-tap correspondence + located-error check",
        design="5 C03"),
    "C09": dict(
        text=("Character level. Model of what the scanner makes of the text between two tokens (blank/newline/comment cases of scanRawToken, the line "
              "continuation, linebreak()). Proved for every layout of the stated shape and every following text: blanks, tabs and backslash-newline only "
              "separate two tokens; a comment before the newline, then any blank or comment lines and the next line's indentation, end the line and are "
              "returned once, in order, with their text; at the line break after && || | blank lines, comment lines, blanks and continuations are skipped. "
              "The model is tied to the lexer on every run by ALL strings of <=4 (thorough 5) items over the layout alphabet {blank, tab, backslash-newline, "
              "comments, newline, bare #} in argument position and after && | ||: the program must equal the canonical rendering the model predicts and the "
              "comments must be the predicted ones. NOT proved (decided on every run by metamorphic pairs): that tokens are scanned alike under every "
              "layout, optional blanks around operators, newline for ';' (token level: the grammar relation of C02 gives both the same skeleton) -- each "
              "program structure is rendered under independent layouts (plain/rich text generator; grammar derivations with independent newline-token, "
              "separator and blank/comment/continuation streams) and must parse to the same skeleton with exactly its own comments; comments inside substitutions in fifteen enclosing contexts with the exact list returned."),
        note=BASE_NOTE + "Modelled, not verified: the rest of scanRawToken (word and operator scanning).",
        technique="Coq proof on a layout-scanner model + exhaustive correspondence over the layout alphabet + metamorphic layout pairs",
        design="5 C09"),
    "C05": dict(
        text=("Partial. Proved: the printer's here-document placement. Model (Print/Heredocs.v): push / redir / newline / heredoc / suspend of "
              "printer.go as operations on a stack of levels (bodies being written, suspended contexts), and the lexer's reading rule as a reader of "
              "the emitted events. Theorem, for every operation sequence (any nesting of levels and multi-line expansions, any placement of newlines, "
              "expansions printed in the middle of a body): if it runs without fault and leaves nothing open, each here-document is read back exactly "
              "once, by the lexer that saw its announcement, at the first newline after it, in announcement order. Tie on every run: the operations the "
              "real printer performed (hook printer.VerifHook) are replayed on the extracted model, the events must be the model's, no fault, nothing "
              "left open, reader accepts (here-document corpus + generated programs x 3 Configs). Token level: C02's completeness. Words of literal quotings "
              "(Lex/Reprint.v): proved for every text the word scanner accepts (plain characters, the three quotings, escapes, line continuations, any Unicode scalar "
              "values) that the parts it returns, written in the printer's notation, are scanned back to exactly the same parts and rest; the notation model is compared "
              "with printer.Fprint on every run (handler rword: all texts of <=4 symbols and random longer ones); the same theorem with simple parameter expansions "
              "($name, $1, $@ ..., outside and inside double quotes; Lex/Reprint2.v) and with braced expansions (${name}, ${#name}, ${name op word} with the fourteen "
              "operators, nested to any depth, with the scanner's look-aheads after ${# and after % and #; Lex/Reprint3.v) on rune-level scanner models tied the same way; the printer's notation for "
              "braced expansions is modelled too (print_pexp, compared on constructed nodes) and is where open finding F64 is a theorem. NOT modelled / not "
              "proved: quoting of words with expansions, separators and layout under the 256 styles; decided on every run by the round trip itself: generated programs + "
              "corpora x 16 pairwise-covering Configs (every 16th and the corpus: all 256): the printed text must be accepted with the same skeleton."),
        note=BASE_NOTE + "Modelled, not verified: the printer apart from its here-document bookkeeping and its notation for words of literal quotings.",
        technique="Coq proofs (here-document bookkeeping invariant; printed words are scanned back, on scanner models with quotations and parameter expansions) + operation-replay and word-level correspondence + print/parse round trip under all styles",
        design="5 C05"),
    "C19": dict(
        text=("Proved: Option.String is total on every bit combination (loop bound translated from the source on every run); the model of Eval "
              "(tokenizer, parser, evaluator) ends with a number or a documented error on every source text and every environment, never at a panic "
              "site and never out of fuel (C19_eval_total), the model being compared with interp.Eval on every run; the model of Expand is total on words "
              "shaped as the parser builds them (C19_expand_total: for every environment and mode it ends with fields or a documented error -- no "
              "panic site is reached and the recursion budget 4*(size+1) always suffices; the shape is checked by the harness on every word of "
              "every accepted source). NOT proved: totality of printer / Pos / End on parser-produced ASTs and of Match / Glob on arbitrary strings; decided on every run in isolated workers: every "
              "accepted source among all strings <=3 significant characters, an oddities corpus and generated programs through Pos/End of every node, "
              "Fprint x 256 Configs, Expand x 8 modes x 3 option sets x 2 argument vectors; Eval / Match (16 modes) / Glob on all strings <=2 symbols "
              "over a 31-symbol alphabet plus random longer ones; all 2^14 Option values."),
        note=BASE_NOTE + "Absence of panics is observed, not proved, for the printer, Pos/End, Match and Glob.",
        technique="Coq totality / no-panic theorems (Option.String, Eval from source text, Expand on parser-shaped words) + model correspondence + downstream no-panic search in isolated workers",
        design="5 C19"),
}

EXPLORATION = {
}

def hook_commits():
    import subprocess
    out = subprocess.run(["git", "-C", "/repo", "log", "--format=%h %s"], stdout=subprocess.PIPE, text=True).stdout
    return [l.split()[0] for l in out.splitlines() if l.split(" ", 1)[1].startswith(("verif hook", "verif:"))]


HOOK_COMMITS = hook_commits()
PENDING_REASON = "not claimed yet: needs the grammar/lexer model as an independent oracle for the expected AST (under construction); no technique switch intended"


def main():
    props = [json.loads(l) for l in open(os.path.join(VERIF, "properties.jsonl"))]
    checks, na = [], []
    for p in props:
        pid = p["id"]
        if pid in CLAIMED or pid in EXPLORATION:
            c = CLAIMED.get(pid) or EXPLORATION[pid]
            checks.append({
                "property_id": pid,
                "quick_cmd": "python3 tools/check.py %s --tier quick" % pid,
                "thorough_cmd": "python3 tools/check.py %s --tier thorough" % pid,
                "evidence_file": "/verif/evidence/%s.json" % pid,
                "replay_cmd_template": "python3 tools/check.py %s --replay {path}" % pid,
                "engine": "coq-proof+correspondence",
                "level_claimed": {"category": "proof" if pid in CLAIMED else "exploration", "text": c["text"], "design_ref": "DESIGN.md section " + c["design"]},
                "level_note": c["note"],
                "technique": c["technique"],
            })
        else:
            na.append({"property_id": pid, "reason": PENDING_REASON})
    m = {
        "version": 1,
        "setup_cmd": "python3 tools/setup.py",
        "hooks": {
            "guard": "verif",
            "enable": "go build -tags verif (the harness module replaces github.com/hattya/go.sh by /repo)",
            "baseline_off_cmd": "cd /repo && GOFLAGS=-mod=mod GOPROXY=off GOSUMDB=off GOTOOLCHAIN=local go test -vet=off -count=1 ./...",
            "source_commits": HOOK_COMMITS,
            "add_only": True,
        },
        "engines": [{
            "name": "coq-proof+correspondence", "path": "/verif/coq, /verif/ocaml, /verif/harness, /verif/tools",
            "serves_properties": sorted(CLAIMED),
            "kind_free_text": "Gallina models + theorems (Coq 8.16.1), models extracted to OCaml and run against the Go implementation on the same cases",
        }],
        "checks": checks,
        "not_applicable": na,
        "notes": "See DESIGN.md. KNOWN_FINDINGS.jsonl lists genuine defects (open) and repaired ones (fixed).",
    }
    with open(os.path.join(VERIF, "MANIFEST.json"), "w") as f:
        json.dump(m, f, indent=1)
    print("MANIFEST.json: %d checks, %d not claimed" % (len(checks), len(na)))


if __name__ == "__main__":
    main()
