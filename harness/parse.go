package main

import (
	"bufio"
	"bytes"
	"errors"
	"fmt"
	"io"
	"io/fs"
	"runtime"
	"strconv"
	"strings"
	"time"
	"unicode/utf8"

	"github.com/hattya/go.sh/ast"
	"github.com/hattya/go.sh/interp"
	"github.com/hattya/go.sh/parser"
)

func init() {
	handlers["parse"] = parseH
}

// runeScanner is a plain io.RuneScanner over a string that counts what was consumed and can
// start failing at a rune index.
type runeScanner struct {
	s      string
	off    int
	prev   int
	n      int // runes delivered
	failAt int // -1: never
	err    error
	reads  int
	hit    bool
	hi     int // high-water mark: bytes inspected (len+1 once the end of input has been seen)
}

func (r *runeScanner) ReadRune() (rune, int, error) {
	r.reads++
	if r.failAt >= 0 && r.n >= r.failAt {
		r.hit = true
		return 0, 0, r.err
	}
	if r.off >= len(r.s) {
		r.prev = -1
		r.hi = len(r.s) + 1
		return 0, 0, io.EOF
	}
	c, w := utf8.DecodeRuneInString(r.s[r.off:])
	r.prev = r.off
	r.off += w
	r.n++
	if r.off > r.hi {
		r.hi = r.off
	}
	return c, w, nil
}

func (r *runeScanner) UnreadRune() error {
	if r.prev < 0 {
		return errors.New("invalid use of UnreadRune")
	}
	r.off = r.prev
	r.prev = -1
	r.n--
	return nil
}

type onlyReader struct{ r io.Reader }

func (o onlyReader) Read(p []byte) (int, error) { return o.r.Read(p) }

var errInjected = errors.New("injected read failure")

// eofLike is a read failure that wraps io.EOF (as an *fs.PathError of a truncated file may): it is a failure all the same.
type eofLike struct{}

func (eofLike) Error() string        { return "injected read failure: EOF" }
func (eofLike) Is(target error) bool { return target == io.EOF || target == errInjected }

// injected returns the error value of a fault at position k: a plain error, one that wraps io.EOF, or such a one inside a PathError.
func injected(k int) error {
	switch k % 3 {
	case 1:
		return eofLike{}
	case 2:
		return &fs.PathError{Op: "read", Path: "t.sh", Err: eofLike{}}
	}
	return errInjected
}

type parseResult struct {
	cmds     []ast.Command
	comments []*ast.Comment
	err      error
	rest     int
	hit      bool
}

// parseOnce runs ParseCommands with a watchdog; kind: s string, b bytes, r io.Reader, c custom RuneScanner
func parseOnce(env *interp.ExecEnv, src string, kind string, failAt int) (res parseResult, status string) {
	done := make(chan parseResult, 1)
	pan := make(chan string, 1)
	go func() {
		defer func() {
			if e := recover(); e != nil {
				pan <- fmt.Sprint(e)
			}
		}()
		var in interface{}
		var rs *runeScanner
		var sr *strings.Reader
		switch kind {
		case "s":
			in = src
		case "b":
			in = []byte(src)
		case "r":
			in = onlyReader{bytes.NewReader([]byte(src))}
		case "R":
			sr = strings.NewReader(src)
			in = sr
		case "B":
			in = bufio.NewReader(strings.NewReader(src))
		default:
			rs = &runeScanner{s: src, prev: -1, failAt: failAt, err: injected(failAt)}
			in = rs
		}
		cmds, comments, err := parser.ParseCommands(env, "t", in)
		r := parseResult{cmds: cmds, comments: comments, err: err, rest: -1}
		if rs != nil {
			r.rest = len(src) - rs.off
			r.hit = rs.hit
		}
		if sr != nil {
			r.rest = sr.Len()
		}
		done <- r
	}()
	deadline := time.After(watchdog(3))
	tick := time.NewTicker(50 * time.Millisecond)
	defer tick.Stop()
	for {
		select {
		case r := <-done:
			return r, "ok"
		case p := <-pan:
			return parseResult{}, "PANIC:" + hx(p)
		case <-deadline:
			mustRestart = true
			return parseResult{}, "HANG"
		case <-tick.C:
			// a parse that keeps spawning goroutines is cut off before it exhausts the machine
			if runtime.NumGoroutine() > 20000 {
				mustRestart = true
				return parseResult{}, "HANG:runaway-goroutines"
			}
		}
	}
}

// mustRestart: a call was abandoned while still running; the worker stops after reporting it
// (exit status 3) and the runner resumes with the remaining cases in a fresh process.
var mustRestart bool

func fmtErr(err error) string {
	if err == nil {
		return "nil"
	}
	var pe parser.Error
	if errors.As(err, &pe) {
		return "syn:" + hx(pe.Name) + ":" + strconv.Itoa(pe.Pos.Line()) + ":" + strconv.Itoa(pe.Pos.Col()) + ":" + hx(pe.Msg)
	}
	if errors.Is(err, errInjected) {
		return "read"
	}
	return "other:" + hx(err.Error())
}

func fmtComments(cs []*ast.Comment) string {
	var s []string
	for _, c := range cs {
		s = append(s, strconv.Itoa(c.Hash.Line())+"."+strconv.Itoa(c.Hash.Col())+"."+hx(c.Text))
	}
	return strings.Join(s, ",")
}

func mkAliasEnv(al string) *interp.ExecEnv {
	if al == "" {
		return nil
	}
	env := interp.NewExecEnv("sh")
	for _, kv := range strings.Split(al, ",") {
		p := strings.Split(kv, "=")
		env.Aliases[unhex(p[0])] = unhex(p[1])
	}
	return env
}

// case: src(hex) \t aliases \t kind \t failAt
// out : <status> E=<err> K=<skeleton> M=<comments> R=<rest>
func parseH(line string) string {
	f := strings.Split(line, "\t")
	failAt := -1
	if len(f) > 3 && f[3] != "" {
		failAt, _ = strconv.Atoi(f[3])
	}
	kind := "s"
	if len(f) > 2 && f[2] != "" {
		kind = f[2]
	}
	al := ""
	if len(f) > 1 {
		al = f[1]
	}
	r, st := parseOnce(mkAliasEnv(al), unhex(f[0]), kind, failAt)
	if st != "ok" {
		return st
	}
	hit := "0"
	if r.hit {
		hit = "1"
	}
	return "ok E=" + fmtErr(r.err) + " K=" + skCmds(r.cmds) + " M=" + fmtComments(r.comments) + " R=" + strconv.Itoa(r.rest) + " F=" + hit
}
