// Thin correspondence harness: reads case lines on stdin, calls the real API of
// github.com/hattya/go.sh (built from /repo's working tree), prints one observable line per case.
package main

import (
	"bufio"
	"encoding/hex"
	"fmt"
	"os"
	"strconv"
	"strings"
	"time"
)

type handler func(line string) string

var handlers = map[string]handler{}

func unhex(s string) string {
	b, err := hex.DecodeString(s)
	if err != nil {
		panic("bad hex " + s)
	}
	return string(b)
}

func hx(s string) string { return hex.EncodeToString([]byte(s)) }

func splitNE(s, sep string) []string {
	if s == "" {
		return nil
	}
	return strings.Split(s, sep)
}

// guard runs f and converts a panic in this goroutine into the observable "PANIC:<msg>".
func guard(f func() string) (out string) {
	defer func() {
		if e := recover(); e != nil {
			out = "PANIC:" + hx(fmt.Sprint(e))
		}
	}()
	return f()
}

// watchdog returns the time limit of one call: sec seconds, multiplied by VERIF_WATCHDOG_X when a case that
// exceeded the limit is run again on its own (a loaded machine must not be taken for a hang).
func watchdog(sec int) time.Duration {
	x := 1
	if v, err := strconv.Atoi(os.Getenv("VERIF_WATCHDOG_X")); err == nil && v > 0 {
		x = v
	}
	return time.Duration(sec*x) * time.Second
}

func main() {
	if len(os.Args) < 2 {
		fmt.Fprintln(os.Stderr, "usage: harness <prop>")
		os.Exit(2)
	}
	if os.Args[1] == "pid" {
		fmt.Println(os.Getpid())
		return
	}
	h, ok := handlers[os.Args[1]]
	if !ok {
		fmt.Fprintln(os.Stderr, "unknown property", os.Args[1])
		os.Exit(2)
	}
	in := bufio.NewReaderSize(os.Stdin, 1<<20)
	out := bufio.NewWriterSize(os.Stdout, 1<<20)
	defer out.Flush()
	defer cleanupC16()
	for {
		line, err := in.ReadString('\n')
		if line != "" {
			line = strings.TrimRight(line, "\n")
			out.WriteString(guard(func() string { return h(line) }))
			out.WriteByte('\n')
			if mustRestart {
				out.Flush()
				cleanupC16()
				os.Exit(3)
			}
		}
		if err != nil {
			break
		}
	}
}
