package main

import (
	"strconv"
	"strings"

	"github.com/hattya/go.sh/pattern"
)

func init() { handlers["c12"] = c12 }

func c12(line string) string {
	f := strings.Split(line, "\t")
	var pats []string
	if f[0] != "-" { // "-" stands for the empty list of patterns
		for _, p := range strings.Split(f[0], ",") {
			pats = append(pats, unhex(p))
		}
	}
	m, _ := strconv.Atoi(f[1])
	s := unhex(f[2])
	rx := "!"
	if r, err := pattern.VerifCompile(pats, pattern.Mode(m)); err == nil {
		rx = hx(r)
	}
	var ms string
	got, err := pattern.Match(pats, pattern.Mode(m), s)
	switch {
	case err == nil:
		ms = "ok:" + hx(got)
	case err == pattern.NoMatch:
		ms = "nomatch"
	default:
		ms = "err"
	}
	return "R=" + rx + " M=" + ms
}
