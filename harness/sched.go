package main

import (
	"fmt"
	"runtime"
	"strconv"
	"strings"
	"sync"
	"sync/atomic"
	"time"

	"github.com/hattya/go.sh/interp"
	"github.com/hattya/go.sh/parser"
)

func init() { handlers["sched"] = schedH }

// perturb returns a hook that, at every synchronisation point, yields or sleeps according to a
// deterministic function of (seed, point id, call count).  Different seeds force different interleavings
// of the lexer goroutine and the parser around every token hand-off.
// monitor checks, on the real execution, the invariants that the protocol model's theorems rest on.
type monitor struct {
	mu        sync.Mutex
	sent      int  // emits completed (point 4)
	recv      int  // tokens received by the parser (point 2)
	cancelAt3 bool // the lexer saw the cancellation before the select of its latest emit
	exits     int  // lexer goroutines that reached their exit (point 8)
	waits     int  // joins started (point 9)
	violation string
}

func (m *monitor) event(id int, cancelled bool) {
	m.mu.Lock()
	defer m.mu.Unlock()
	switch id {
	case 2:
		m.recv++
	case 3:
		m.cancelAt3 = cancelled
	case 4:
		m.sent++
		if m.cancelAt3 && m.violation == "" {
			m.violation = "delivered-after-cancel" // LTS invariant Inv / theorem no_delivery_after_cancel
		}
	case 8:
		m.exits++
	case 9:
		m.waits++
	}
}

// atReturn: every hand-off is a rendezvous, every joined lexer has exited (quiescent_at_return).
func (m *monitor) atReturn() string {
	m.mu.Lock()
	defer m.mu.Unlock()
	if m.violation != "" {
		return m.violation
	}
	if m.sent != m.recv {
		return fmt.Sprintf("sent=%d-received=%d", m.sent, m.recv)
	}
	if m.exits < m.waits || m.waits == 0 {
		return fmt.Sprintf("joins=%d-exits=%d", m.waits, m.exits)
	}
	return ""
}

func perturb(seed uint64, m *monitor) func(int, bool) {
	var n uint64
	return func(id int, cancelled bool) {
		m.event(id, cancelled)
		k := atomic.AddUint64(&n, 1)
		x := seed ^ (k * 0x9E3779B97F4A7C15) ^ (uint64(id) * 0xBF58476D1CE4E5B9)
		x ^= x >> 31
		x *= 0x94D049BB133111EB
		x ^= x >> 29
		switch x % 6 {
		case 0:
		case 1, 2:
			for i := uint64(0); i < (x>>8)%4+1; i++ {
				runtime.Gosched()
			}
		case 3:
			time.Sleep(time.Duration((x>>8)%40+1) * time.Microsecond)
		case 4:
			time.Sleep(time.Duration((x>>8)%120+1) * time.Microsecond)
		case 5:
			// favour one side: parser-side points (1,2,5,9) wait, lexer-side points run, or the reverse
			if (id == 1 || id == 2 || id == 5 || id == 9) == (seed&1 == 0) {
				time.Sleep(time.Duration((x>>8)%150+1) * time.Microsecond)
			}
		}
	}
}

// settle returns the number of goroutines once the ones that have already signalled completion had a
// moment to finish their last instructions (a goroutine that is blocked or keeps working stays counted).
func settle(before int) int {
	n := runtime.NumGoroutine()
	for i := 0; i < 40 && n > before; i++ {
		time.Sleep(50 * time.Microsecond)
		n = runtime.NumGoroutine()
	}
	return n
}

// case: kind (p|e) \t input(hex) \t vars(name=value hex, comma; eval) or index at which the source starts failing (parse) \t seeds
// out : ok n=<runs> | FAIL:<what>
func schedH(line string) string {
	f := strings.Split(line, "\t")
	seeds, _ := strconv.Atoi(f[3])
	in := unhex(f[1])
	run := func() string {
		switch f[0] {
		case "p", "a":
			rs := &runeScanner{s: in, prev: -1, failAt: -1, err: errInjected}
			var penv *interp.ExecEnv
			if f[0] == "a" {
				// field 2 is an alias table
				penv = interp.NewExecEnv("sh")
				for _, kv := range splitNE(f[2], ",") {
					p := strings.Split(kv, "=")
					penv.Aliases[unhex(p[0])] = unhex(p[1])
				}
			} else if f[2] != "" {
				// the source starts failing at this rune index
				rs.failAt, _ = strconv.Atoi(f[2])
			}
			before := runtime.NumGoroutine()
			cmds, comments, err := parser.ParseCommands(penv, "t", rs)
			after := settle(before)
			leak := ""
			if after > before {
				leak = fmt.Sprintf(" LEAK=%d", after-before)
			}
			off := rs.off
			reads := rs.reads
			// the source must not be touched after return
			time.Sleep(50 * time.Microsecond)
			if rs.reads != reads || rs.off != off {
				leak += " READ-AFTER-RETURN"
			}
			return "E=" + fmtErr(err) + " K=" + skCmds(cmds) + " M=" + fmtComments(comments) + " R=" + strconv.Itoa(len(in)-off) + leak
		default:
			env := newEnv(hx("sh"), "0")
			for _, kv := range splitNE(f[2], ",") {
				p := strings.Split(kv, "=")
				env.Set(unhex(p[0]), unhex(p[1]))
			}
			before := runtime.NumGoroutine()
			n, err := env.Eval(in)
			after := settle(before)
			leak := ""
			if after > before {
				leak = fmt.Sprintf(" LEAK=%d", after-before)
			}
			r := "ok:" + strconv.Itoa(n)
			if err != nil {
				r = "err:" + hx(err.Error())
			}
			return r + " S=" + fmtStore(env) + leak
		}
	}
	parser.VerifHook = nil
	interp.VerifHook = nil
	base := run()
	if strings.Contains(base, "LEAK") || strings.Contains(base, "READ-AFTER") {
		return "FAIL:goroutine-or-reader-after-return:" + hx(base)
	}
	for s := 1; s <= seeds; s++ {
		m := &monitor{}
		h := perturb(uint64(s)*0x2545F4914F6CDD1D, m)
		parser.VerifHook = h
		interp.VerifHook = h
		got := run()
		parser.VerifHook = nil
		interp.VerifHook = nil
		if got != base {
			return "FAIL:schedule-dependent:seed=" + strconv.Itoa(s) + ":" + hx(base) + ":" + hx(got)
		}
		if v := m.atReturn(); v != "" {
			return "FAIL:protocol-invariant:" + v + ":seed=" + strconv.Itoa(s)
		}
	}
	parser.VerifHook = nil
	interp.VerifHook = nil
	return "ok n=" + strconv.Itoa(seeds+1)
}
