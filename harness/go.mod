module verifharness

go 1.21

require github.com/hattya/go.sh v0.0.0

replace github.com/hattya/go.sh => /repo
