package main

import (
	"strconv"
	"strings"

	"github.com/hattya/go.sh/interp"
	"github.com/hattya/go.sh/pattern"
)

func init() {
	handlers["c20x"] = c20x
}

func fmtArgsOpts(env *interp.ExecEnv) string {
	var a []string
	for _, s := range env.Args {
		a = append(a, hx(s))
	}
	return "A=" + strings.Join(a, ",") + "|O=" + strconv.FormatUint(uint64(env.Opts), 10)
}

// c20x: store histories interleaved with Expand and Eval.
// ops: S,n,v | U,n | G,n | W | X:<mode>:<hex of the word tokens> | E:<hex expr>
// an X / E observation carries the result, the store, Args and Opts after the call.
func c20x(line string) string {
	f := strings.Split(line, "\t")
	env := newEnv(f[0], f[1])
	var out []string
	for _, op := range splitNE(f[3], " ") {
		if strings.HasPrefix(op, "X:") {
			p := strings.Split(op, ":")
			mode, _ := strconv.Atoi(p[1])
			w, _ := parseWord(splitNE(unhex(p[2]), " "), 0)
			r := guard(func() string {
				fields, err := env.Expand(w, interp.ExpMode(mode))
				switch e := err.(type) {
				case nil:
					var hs []string
					for _, s := range fields {
						hs = append(hs, hx(s))
					}
					return "ok:" + strconv.Itoa(len(fields)) + ":" + strings.Join(hs, ",")
				case interp.ParamExpError:
					return "err:param:" + hx(e.ParamExp.Name.Value) + ":" + hx(e.Msg)
				case interp.ArithExprError:
					return "err:arith"
				default:
					if err == pattern.NoMatch {
						return "err:nomatch"
					}
					return "err:pattern"
				}
			})
			if strings.HasPrefix(r, "PANIC") {
				r = "panic"
			}
			out = append(out, "x;"+r+";"+fmtStore(env)+";"+fmtArgsOpts(env))
			continue
		}
		if strings.HasPrefix(op, "E:") {
			p := strings.Split(op, ":")
			r := guard(func() string {
				n, err := env.Eval(unhex(p[1]))
				if err != nil {
					return "err"
				}
				return "ok:" + strconv.Itoa(n)
			})
			if strings.HasPrefix(r, "PANIC") {
				r = "panic"
			}
			out = append(out, "e;"+r+";"+fmtStore(env)+";"+fmtArgsOpts(env))
			continue
		}
		p := strings.Split(op, ",")
		switch p[0] {
		case "S":
			env.Set(unhex(p[1]), unhex(p[2]))
			out = append(out, "-")
		case "U":
			env.Unset(unhex(p[1]))
			out = append(out, "-")
		case "G":
			r := guard(func() string {
				v, set := env.Get(unhex(p[1]))
				b := "0"
				if set {
					b = "1"
				}
				return "g:" + hx(v.Name) + ":" + hx(v.Value) + ":" + b
			})
			if strings.HasPrefix(r, "PANIC") {
				r = "g:panic"
			}
			out = append(out, r)
		case "W":
			out = append(out, fmtWalk(env))
		}
	}
	return strings.Join(out, " ")
}
