package main

import (
	"runtime"
	"strings"
	"time"

	"github.com/hattya/go.sh/ast"
	"github.com/hattya/go.sh/parser"
)

func init() { handlers["alias"] = aliasH }

func parseAllEnv(src, aliases string) ([]ast.Command, error) {
	rs := &runeScanner{s: src, prev: -1, failAt: -1}
	var cmds []ast.Command
	for i := 0; i < 10000; i++ {
		c, _, err := parser.ParseCommands(mkAliasEnv(aliases), "t", rs)
		cmds = append(cmds, c...)
		if err != nil {
			return cmds, err
		}
		if rs.off >= len(rs.s) {
			break
		}
	}
	return cmds, nil
}

// case: folded(hex) \t aliases \t unfolded(hex)
func aliasH(line string) string {
	f := strings.Split(line, "\t")
	type r struct {
		k   string
		err error
	}
	ch := make(chan string, 1)
	go func() {
		want, werr := parseAllEnv(unhex(f[2]), "")
		if werr != nil {
			ch <- "skip:" + fmtErr(werr)
			return
		}
		got, err := parseAllEnv(unhex(f[0]), f[1])
		if err != nil {
			ch <- "FAIL:error:" + fmtErr(err)
			return
		}
		if skCmds(got) != skCmds(want) {
			ch <- "FAIL:different-program:" + skCmds(got) + ":" + skCmds(want)
			return
		}
		ch <- "ok"
	}()
	deadline := time.After(watchdog(5))
	tick := time.NewTicker(50 * time.Millisecond)
	defer tick.Stop()
	for {
		select {
		case o := <-ch:
			return o
		case <-deadline:
			mustRestart = true
			return "HANG"
		case <-tick.C:
			if runtime.NumGoroutine() > 20000 {
				mustRestart = true
				return "HANG:runaway-goroutines"
			}
		}
	}
}
