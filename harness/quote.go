package main

import (
	"fmt"
	"os"
	"strings"
	"unicode/utf8"

	"github.com/hattya/go.sh/ast"
	"github.com/hattya/go.sh/interp"
	"github.com/hattya/go.sh/parser"
	"github.com/hattya/go.sh/pattern"
)

func init() { handlers["quote"] = quoteH }

func quoteSingle(s string) string {
	// 'a'\''b'
	return "'" + strings.ReplaceAll(s, "'", `'\''`) + "'"
}

func quoteDouble(s string) string {
	var b strings.Builder
	b.WriteByte('"')
	for _, r := range s {
		switch r {
		case '$', '`', '"', '\\':
			b.WriteByte('\\')
		}
		b.WriteRune(r)
	}
	b.WriteByte('"')
	return b.String()
}

func quoteBackslash(s string) string {
	var b strings.Builder
	for _, r := range s {
		if r == '\n' {
			b.WriteString("'\n'") // backslash-newline is a line continuation, not a quoted newline
			continue
		}
		b.WriteByte('\\')
		b.WriteRune(r)
	}
	if s == "" {
		return "''"
	}
	return b.String()
}

func quoteMixed(s string) string {
	var b strings.Builder
	for i, r := range s {
		switch {
		case r == '\n' || r == '\'':
			b.WriteString(quoteDouble(string(r)))
		case i%3 == 0:
			b.WriteString(quoteSingle(string(r)))
		case i%3 == 1:
			b.WriteString(quoteDouble(string(r)))
		default:
			b.WriteString(quoteBackslash(string(r)))
		}
	}
	if s == "" {
		return `""''`
	}
	return b.String()
}

func patEscape(s string) string {
	var b strings.Builder
	for i := 0; i < len(s); i++ {
		switch s[i] {
		case '?', '*', '[', '\\':
			b.WriteByte('\\')
		}
		b.WriteByte(s[i])
	}
	return b.String()
}

// escapedForm reports whether p is s with a backslash before some of its characters, among them every ? * [ and backslash.
func escapedForm(p, s string) bool {
	var b strings.Builder
	for i := 0; i < len(p); i++ {
		switch p[i] {
		case '\\':
			i++
			if i == len(p) {
				return false
			}
		case '?', '*', '[':
			return false
		}
		b.WriteByte(p[i])
	}
	return b.String() == s
}

// bracketCheck expands the bracket expression open + quoted s + "z]" in Pattern mode and matches it against single characters: it must
// match exactly the characters of set (the quoted characters stand for themselves: no range, no negation, no early end).
func bracketCheck(open, quoted, s string, set string) string {
	return bracketCheck2(open, quoted, s, set, "z]")
}

func bracketCheck2(open, quoted, s string, set, closing string) string {
	src := "x " + open + quoted + closing + "\n"
	cmds, _, err := parser.ParseCommands(nil, "t", src)
	if err != nil || len(cmds) != 1 {
		return "" // (the quoting of s glued to the bracket is not a word of its own: nothing to check)
	}
	c, k := cmds[0].(*ast.Cmd)
	if !k {
		return ""
	}
	sc, k := c.Expr.(*ast.SimpleCmd)
	if !k || len(sc.Args) != 2 {
		return ""
	}
	env := newEnv(hx("sh"), "0")
	got, err := env.Expand(sc.Args[1], interp.Pattern)
	if err != nil || len(got) != 1 {
		return "FAIL:bracket-expand:" + hx(src)
	}
	for _, r := range "abmz-!^]\\[*?.:=\n" + s {
		ch := string(r)
		want := strings.ContainsRune(set, r)
		m, err := pattern.Match([]string{got[0]}, pattern.Prefix|pattern.Largest, ch)
		if err != nil && err != pattern.NoMatch {
			return "FAIL:bracket-error:" + hx(src) + ":" + hx(got[0])
		}
		if (err == nil && m == ch) != want {
			return "FAIL:bracket-member:" + hx(src) + ":" + hx(got[0]) + ":" + hx(ch)
		}
	}
	return ""
}

// case: s(hex) \t dir-with-files(0|1)
func quoteH(line string) string {
	f := strings.Split(line, "\t")
	s := unhex(f[0])
	if len(f) > 1 && f[1] == "1" {
		dir, err := os.MkdirTemp("", "verifc15")
		if err == nil {
			defer os.RemoveAll(dir)
			wd, _ := os.Getwd()
			os.Chdir(dir)
			defer os.Chdir(wd)
			// (also files named like the escaped spellings of s: the pattern that quoted text becomes is not a file name)
			var esc1, esc2 strings.Builder
			for _, r := range s {
				if strings.ContainsRune("?*[\\]-!^", r) {
					esc1.WriteByte('\\')
				}
				esc1.WriteRune(r)
				esc2.WriteByte('\\')
				esc2.WriteRune(r)
			}
			for _, n := range []string{s, "a", "b", "ab", ".h", "x y", esc1.String(), esc2.String(), "\\" + s, s + "\\"} {
				if n != "" && !strings.ContainsAny(n, "/\x00") && n != "." && n != ".." {
					os.WriteFile(n, nil, 0o644)
				}
			}
		}
	}
	styles := map[string]string{"single": quoteSingle(s), "double": quoteDouble(s), "backslash": quoteBackslash(s), "mixed": quoteMixed(s)}
	// quoted text inside an unquoted bracket expression of a pattern: its characters are members, nothing else
	if utf8.ValidString(s) && !strings.ContainsAny(s, "\x00") {
		for _, name := range []string{"single", "double", "backslash", "mixed"} {
			if s == "" && name == "backslash" {
				continue
			}
			if r := bracketCheck("[a", styles[name], s, "az"+s); r != "" {
				return r + ":" + name
			}
			if r := bracketCheck("[", styles[name], s, "z"+s); r != "" {
				return r + ":" + name + ":first"
			}
			// after "[[" a quoted . = : opens no collating symbol, equivalence class or character class
			if r := bracketCheck2("[[", styles[name], s, "["+s, "]"); r != "" {
				return r + ":" + name + ":second"
			}
		}
	}
	for _, name := range []string{"single", "double", "backslash", "mixed"} {
		src := "x " + styles[name] + "\n"
		cmds, _, err := parser.ParseCommands(nil, "t", src)
		tag := ":" + name + ":" + hx(src)
		if err != nil {
			return "FAIL:parse" + tag + ":" + fmtErr(err)
		}
		var w ast.Word
		ok := false
		if len(cmds) == 1 {
			if c, k := cmds[0].(*ast.Cmd); k {
				if sc, k := c.Expr.(*ast.SimpleCmd); k && len(sc.Args) == 2 {
					w, ok = sc.Args[1], true
				}
			}
		}
		if !ok {
			return "FAIL:shape" + tag + ":" + skCmds(cmds)
		}
		for _, ifs := range []string{" \t\n", s, "a" + s, ""} {
			for _, mode := range []interp.ExpMode{0, interp.Literal, interp.Quote, interp.Assign, interp.Pattern} {
				for _, opts := range []interp.Option{0, interp.NoGlob, interp.NoUnset} {
					env := newEnv(hx("sh")+","+hx("p1")+","+hx(s), "0")
					env.Opts = opts
					env.Set("IFS", ifs)
					env.Set("HOME", "/home/"+s)
					env.Set("x", "X")
					got, err := env.Expand(w, mode)
					t2 := tag + fmt.Sprintf(":mode=%d:opts=%d:ifs=%s", mode, opts, hx(ifs))
					if err != nil {
						return "FAIL:expand-error" + t2
					}
					if len(got) != 1 || (mode&interp.Pattern == 0 && got[0] != s) || (mode&interp.Pattern != 0 && !escapedForm(got[0], s)) {
						return "FAIL:fields" + t2 + ":" + hx(strings.Join(got, "\x00"))
					}
					if mode&interp.Pattern != 0 {
						// the escaped text matches only itself
						if m, err := pattern.Match([]string{got[0]}, pattern.Prefix|pattern.Largest, s+"z"); err != nil && err != pattern.NoMatch || (err == nil && m != s) {
							if !(s == "" && err == nil && m == "") {
								return "FAIL:pattern-self" + t2
							}
						}
						for _, other := range []string{"a", "ab", s + s + "q", "\n"} {
							if other == s || (s != "" && strings.HasPrefix(other, s)) {
								continue
							}
							if m, err := pattern.Match([]string{got[0]}, pattern.Prefix|pattern.Largest, other); err == nil && m != "" && s != "" {
								return "FAIL:pattern-matches-other" + t2 + ":" + hx(other)
							} else if err != nil && err != pattern.NoMatch {
								return "FAIL:pattern-error" + t2
							}
						}
					}
				}
			}
		}
	}
	return "ok"
}

func init() { handlers["qword"] = qwordH }

// case: style (s|d|b) \t string(hex): the source of the quoted word and the skeleton of the word the parser builds
func qwordH(line string) string {
	f := strings.Split(line, "\t")
	s := unhex(f[1])
	var q string
	switch f[0] {
	case "s":
		q = "'" + s + "'"
	case "d":
		q = quoteDouble(s)
	default:
		var b strings.Builder
		for _, r := range s {
			b.WriteByte('\\')
			b.WriteRune(r)
		}
		q = b.String()
	}
	cmds, _, err := parser.ParseCommands(nil, "t", "x "+q+"\n")
	if err != nil {
		return hx(q) + " error"
	}
	if len(cmds) == 1 {
		if c, ok := cmds[0].(*ast.Cmd); ok {
			if sc, ok := c.Expr.(*ast.SimpleCmd); ok && len(sc.Args) == 2 {
				return hx(q) + " " + skWord(sc.Args[1])
			}
			if sc, ok := c.Expr.(*ast.SimpleCmd); ok && len(sc.Args) == 1 {
				return hx(q) + " []"
			}
		}
	}
	return hx(q) + " shape:" + skCmds(cmds)
}
