package main

import (
	"os"
	"sort"
	"strconv"
	"strings"

	"github.com/hattya/go.sh/interp"
)

func init() {
	handlers["c20"] = c20
	handlers["optstr"] = optstr
}

// newEnv builds an ExecEnv whose only variable is IFS (the process environment is cleared).
func newEnv(argsHex string, opts string) *interp.ExecEnv {
	os.Clearenv()
	args := splitNE(argsHex, ",")
	for i := range args {
		args[i] = unhex(args[i])
	}
	var env *interp.ExecEnv
	if len(args) == 0 {
		env = interp.NewExecEnv("")
		env.Args = nil
	} else {
		env = interp.NewExecEnv(args[0], args[1:]...)
	}
	o, _ := strconv.ParseUint(opts, 10, 64)
	env.Opts = interp.Option(o)
	return env
}

func fmtWalk(env *interp.ExecEnv) string {
	var kv []string
	m := map[string]string{}
	var keys []string
	env.Walk(func(v interp.Var) {
		keys = append(keys, v.Name)
		m[v.Name] = v.Value
	})
	sort.Strings(keys)
	for _, k := range keys {
		kv = append(kv, hx(k)+"="+hx(m[k]))
	}
	return "w:" + strings.Join(kv, ",")
}

func c20(line string) string {
	f := strings.Split(line, "\t")
	env := newEnv(f[0], f[1])
	pid := strconv.Itoa(os.Getpid())
	var out []string
	for _, op := range splitNE(f[3], " ") {
		p := strings.Split(op, ",")
		switch p[0] {
		case "S":
			env.Set(unhex(p[1]), unhex(p[2]))
			out = append(out, "-")
		case "U":
			env.Unset(unhex(p[1]))
			out = append(out, "-")
		case "G":
			out = append(out, guard(func() string {
				v, set := env.Get(unhex(p[1]))
				val := v.Value
				if unhex(p[1]) == "$" && val == pid {
					val = f[2] // the case carries the pid the model is told about
				}
				b := "0"
				if set {
					b = "1"
				}
				return "g:" + hx(v.Name) + ":" + hx(val) + ":" + b
			}))
			if strings.HasPrefix(out[len(out)-1], "PANIC") {
				out[len(out)-1] = "g:panic"
			}
		case "W":
			out = append(out, fmtWalk(env))
		}
	}
	return strings.Join(out, " ")
}

func optstr(line string) string {
	o, _ := strconv.ParseUint(line, 10, 64)
	r := guard(func() string { return hx(interp.Option(o).String()) })
	if strings.HasPrefix(r, "PANIC") {
		return "panic"
	}
	return r
}
