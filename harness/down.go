package main

import (
	"fmt"
	"io"
	"reflect"
	"strings"

	"github.com/hattya/go.sh/ast"
	"github.com/hattya/go.sh/interp"
	"github.com/hattya/go.sh/pattern"
)

func init() {
	handlers["down"] = downH
	handlers["anystr"] = anystrH
}

var nodeType = reflect.TypeOf((*ast.Node)(nil)).Elem()

// visit calls f on every ast.Node and every ast.Word reachable from v.
func visit(v reflect.Value, f func(n ast.Node), fw func(w ast.Word), depth int) {
	if depth > 400 {
		return
	}
	switch v.Kind() {
	case reflect.Ptr, reflect.Interface:
		if v.IsNil() {
			return
		}
		if v.Kind() == reflect.Ptr {
			if n, ok := v.Interface().(ast.Node); ok {
				f(n)
			}
		}
		visit(v.Elem(), f, fw, depth+1)
	case reflect.Struct:
		for i := 0; i < v.NumField(); i++ {
			visit(v.Field(i), f, fw, depth+1)
		}
	case reflect.Slice:
		if v.IsNil() {
			return
		}
		if w, ok := v.Interface().(ast.Word); ok {
			fw(w)
			f(w)
		} else if n, ok := v.Interface().(ast.Node); ok {
			f(n)
		}
		for i := 0; i < v.Len(); i++ {
			visit(v.Index(i), f, fw, depth+1)
		}
	}
}

func try(where string, f func()) (msg string) {
	defer func() {
		if e := recover(); e != nil {
			msg = "PANIC:" + where + ":" + hx(fmt.Sprint(e))
		}
	}()
	f()
	return ""
}

// case: src(hex).  Every node's Pos/End, Fprint under all 256 configs, Expand of every word under every mode.
func downH(line string) string {
	f0 := strings.Split(line, "\t")
	src := unhex(f0[0])
	cmds, comments, err := parseAll(src)
	if len(f0) > 1 && f0[1] != "" {
		// with an alias table (positions stand still inside alias text: the printer sees degenerate layouts)
		comments = nil
		cmds, err = parseAllEnv(src, f0[1])
	}
	if err != nil {
		return "skip:" + fmtErr(err)
	}
	var words []ast.Word
	var first string
	visit(reflect.ValueOf(cmds), func(n ast.Node) {
		if m := try(fmt.Sprintf("Pos/End(%T)", n), func() { n.Pos(); n.End() }); m != "" && first == "" {
			first = m
		}
	}, func(w ast.Word) { words = append(words, w) }, 0)
	for _, c := range comments {
		if m := try("Comment.Pos/End", func() { c.Pos(); c.End() }); m != "" && first == "" {
			first = m
		}
	}
	if first != "" {
		return first
	}
	// the hypothesis of the no-panic theorem for Expand (Props/C19.v, wfw): between single quotes and after a backslash the
	// parser puts at most one literal
	for _, w := range words {
		if !wordShape(w) {
			return "FAIL:word-shape:" + hx(printWord(w))
		}
	}
	for i := 0; i < 256; i++ {
		cfg := config(i)
		for _, c := range cmds {
			if m := try(fmt.Sprintf("Fprint(cfg=%d)", i), func() { cfg.Fprint(io.Discard, c) }); m != "" {
				return m
			}
		}
	}
	for _, args := range [][]string{{"sh"}, {"sh", "a b", ""}} {
		for _, mode := range []interp.ExpMode{0, interp.Arith, interp.Assign, interp.Literal, interp.Pattern, interp.Quote, interp.Assign | interp.Quote, interp.Arith | interp.Quote} {
			for _, opts := range []interp.Option{interp.NoGlob, interp.NoGlob | interp.NoUnset, 0} {
				// variable values and IFS with invalid bytes and U+FFFD (which compare equal to every invalid byte), an IFS
				// character one or two bytes after an invalid byte
				for _, vars := range [][2]string{{"a b*", ""}, {"a\xff b\xfe\xfd:c\xff", " \xff:"}, {"\xff\xfe", "\xff"}, {"a\xfe:b \ufffd", "\ufffd:"}, {"a b", "-"}} {
					for _, w := range words {
						env := newEnv(hx(args[0]), "0")
						env.Args = args
						env.Opts = opts
						env.Set("x", vars[0])
						env.Set("a", vars[0])
						env.Set("HOME", "/h")
						switch vars[1] {
						case "":
						case "-":
							env.Set("IFS", "")
						default:
							env.Set("IFS", vars[1])
						}
						if m := try(fmt.Sprintf("Expand(mode=%d)", mode), func() { env.Expand(w, mode) }); m != "" {
							return m + ":" + hx(printWord(w)) + ":x=" + hx(vars[0]) + ":IFS=" + hx(vars[1])
						}
					}
				}
			}
		}
	}
	return fmt.Sprintf("ok words=%d", len(words))
}

func wordShape(w ast.Word) bool {
	for _, p := range w {
		switch x := p.(type) {
		case *ast.Quote:
			if x.Tok == "'" || x.Tok == `\` {
				if len(x.Value) > 1 {
					return false
				}
				if len(x.Value) == 1 {
					if _, ok := x.Value[0].(*ast.Lit); !ok {
						return false
					}
				}
			} else if !wordShape(x.Value) {
				return false
			}
		case *ast.ParamExp:
			if !wordShape(x.Word) {
				return false
			}
		case *ast.ArithExp:
			if !wordShape(x.Expr) {
				return false
			}
		}
	}
	return true
}

// case: string(hex): Eval, Match (all 16 modes), Glob on an arbitrary string
func anystrH(line string) string {
	s := unhex(line)
	env := newEnv(hx("sh"), "0")
	env.Set("x", s)
	if m := try("Eval", func() { env.Eval(s) }); m != "" {
		return m
	}
	for mode := 0; mode < 16; mode++ {
		if m := try(fmt.Sprintf("Match(mode=%d)", mode), func() {
			pattern.Match([]string{s}, pattern.Mode(mode), s)
			pattern.Match([]string{s, "a"}, pattern.Mode(mode), "a"+s)
		}); m != "" {
			return m
		}
	}
	if m := try("Glob", func() { pattern.Glob(s) }); m != "" {
		return m
	}
	return "ok"
}
