package main

import (
	"strconv"
	"strings"

	"github.com/hattya/go.sh/ast"
	"github.com/hattya/go.sh/parser"
)

func init() { handlers["stream"] = streamH }

// case: command texts (hex, comma separated)
// Each text is one complete command line (with its here-documents) or a blank line. The concatenation is parsed by
// successive ParseCommands calls on one scanner; after call i the scanner must stand at the start of text i+1 and
// the result must equal the parse of text i alone.
func streamH(line string) string {
	var texts []string
	for _, h := range strings.Split(line, ",") {
		texts = append(texts, unhex(h))
	}
	all := strings.Join(texts, "")
	for _, kind := range []string{"c", "R"} {
		rs := &runeScanner{s: all, prev: -1, failAt: -1}
		sr := strings.NewReader(all)
		off := 0
		for i, t := range texts {
			var cmds []ast.Command
			var comments []*ast.Comment
			var err error
			if kind == "c" {
				cmds, comments, err = parser.ParseCommands(nil, "t", rs)
			} else {
				cmds, comments, err = parser.ParseCommands(nil, "t", sr)
			}
			want, wantc, werr := parser.ParseCommands(nil, "t", t)
			if werr != nil {
				return "skip:" + strconv.Itoa(i) + ":" + fmtErr(werr)
			}
			tag := ":kind=" + kind + ":i=" + strconv.Itoa(i)
			if err != nil {
				return "FAIL:error-in-stream" + tag + ":" + fmtErr(err)
			}
			off += len(t)
			var pos int
			if kind == "c" {
				pos = rs.off
			} else {
				pos = len(all) - sr.Len()
			}
			if pos != off {
				return "FAIL:consumed" + tag + ":got=" + strconv.Itoa(pos) + ":want=" + strconv.Itoa(off)
			}
			if skCmds(cmds) != skCmds(want) {
				return "FAIL:different-result" + tag
			}
			if len(comments) != len(wantc) {
				return "FAIL:different-comments" + tag
			}
			for j := range comments {
				if comments[j].Text != wantc[j].Text {
					return "FAIL:different-comments" + tag
				}
			}
			if strings.TrimLeft(t, " \t") == "\n" && len(cmds) != 0 {
				return "FAIL:blank-line-not-empty" + tag
			}
			if kind == "c" && rs.hi <= len(all) {
				// prefix locality (Lex/Eff.v prefix_locality): nothing beyond the inspected prefix matters.
				start := off - len(t)
				for _, garbage := range []string{"", "\n", ") ) 'x", "fi done esac }"} {
					rs2 := &runeScanner{s: all[start:rs.hi] + garbage, prev: -1, failAt: -1}
					c2, m2, e2 := parser.ParseCommands(nil, "t", rs2)
					if e2 != nil || skCmds(c2) != skCmds(cmds) || len(m2) != len(comments) || rs2.off != len(t) {
						return "FAIL:depends-on-text-beyond-inspected-prefix" + tag + ":hi=" + strconv.Itoa(rs.hi-start)
					}
				}
				// no over-consumption: what was inspected beyond the command is at most its look-ahead
				if rs.hi-off > 4 {
					return "FAIL:inspected-far-beyond-the-command" + tag + ":" + strconv.Itoa(rs.hi-off)
				}
			}
		}
	}
	return "ok n=" + strconv.Itoa(len(texts))
}
