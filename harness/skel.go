package main

import (
	"fmt"
	"strings"

	"github.com/hattya/go.sh/ast"
)

// skeleton: position-free canonical dump of the AST. Strings are hex; no blanks.
// Commands are dumped in full form (AndOrList > Pipeline > Cmd) whatever extract() collapsed.

func skWord(w ast.Word) string { return skWordM(w, true) }

// skWordM: merge tells whether adjacent literals are merged. They are not in an arithmetic
// expression, where the lexer starts a new literal after every blank ("1 2" is not "12").
func skWordM(w ast.Word, merge bool) string {
	if w == nil {
		return "N"
	}
	var b strings.Builder
	b.WriteString("[")
	for i := 0; i < len(w); i++ {
		if i > 0 {
			b.WriteString(",")
		}
		switch p := w[i].(type) {
		case *ast.Lit:
			// adjacent literals denote the same text as one literal
			v := p.Value
			for merge && i+1 < len(w) {
				n, ok := w[i+1].(*ast.Lit)
				if !ok {
					break
				}
				v += n.Value
				i++
			}
			b.WriteString("L" + hx(v))
		case *ast.Quote:
			b.WriteString("Q" + hx(p.Tok) + skWord(p.Value))
		case *ast.ParamExp:
			br := "0"
			if p.Braces {
				br = "1"
			}
			name := "N"
			if p.Name != nil {
				name = hx(p.Name.Value)
			}
			b.WriteString("P" + br + "{" + name + ":" + hx(p.Op) + ":" + skWord(p.Word) + "}")
		case *ast.CmdSubst:
			d := "b"
			if p.Dollar {
				d = "d"
			}
			b.WriteString("C" + d + skCmds(p.List))
		case *ast.ArithExp:
			b.WriteString("A" + skWordM(p.Expr, false))
		default:
			b.WriteString(fmt.Sprintf("?%T", p))
		}
	}
	b.WriteString("]")
	return b.String()
}

func skWords(ws []ast.Word) string {
	var s []string
	for _, w := range ws {
		s = append(s, skWord(w))
	}
	return "(" + strings.Join(s, ";") + ")"
}

func skRedirs(rs []*ast.Redir) string {
	var s []string
	for _, r := range rs {
		n := "N"
		if r.N != nil {
			n = hx(r.N.Value)
		}
		s = append(s, "r{"+n+":"+hx(r.Op)+":"+skWord(r.Word)+":"+skWord(r.Heredoc)+":"+skWord(r.Delim)+"}")
	}
	return "(" + strings.Join(s, ";") + ")"
}

// skCmds flattens a command sequence into its and-or lists: "a; b" on one line (one ast.List)
// and "a" newline "b" (two commands) are the same program.
func skCmds(cs []ast.Command) string {
	var s []string
	for _, c := range cs {
		s = append(s, skAndOrs(c)...)
	}
	return "(" + strings.Join(s, ";") + ")"
}

func skAndOrs(c ast.Command) []string {
	switch c := c.(type) {
	case ast.List:
		var s []string
		for _, a := range c {
			s = append(s, skAndOr(a))
		}
		return s
	case *ast.AndOrList:
		return []string{skAndOr(c)}
	case *ast.Pipeline:
		return []string{skAndOr(&ast.AndOrList{Pipeline: c})}
	case *ast.Cmd:
		return []string{skAndOr(&ast.AndOrList{Pipeline: &ast.Pipeline{Cmd: c}})}
	case nil:
		return []string{"nil"}
	}
	return []string{fmt.Sprintf("?%T", c)}
}

// sepNorm: ";" and newline (empty) are the same separator
func sepNorm(s string) string {
	if s == "&" {
		return "&"
	}
	return ";"
}

func skCommand(c ast.Command) string {
	return "list(" + strings.Join(skAndOrs(c), ";") + ")"
}

func skAndOr(a *ast.AndOrList) string {
	if a == nil {
		return "nil"
	}
	var s []string
	s = append(s, skPipeline(a.Pipeline))
	for _, ao := range a.List {
		s = append(s, hx(ao.Op)+skPipeline(ao.Pipeline))
	}
	return "ao{" + strings.Join(s, ",") + "}" + sepNorm(a.Sep)
}

func skPipeline(p *ast.Pipeline) string {
	if p == nil {
		return "nil"
	}
	var s []string
	if !p.Bang.IsZero() {
		s = append(s, "!")
	}
	s = append(s, skCmd(p.Cmd))
	for _, x := range p.List {
		s = append(s, hx(x.Op)+skCmd(x.Cmd))
	}
	return "pl{" + strings.Join(s, ",") + "}"
}

func skCmd(c *ast.Cmd) string {
	if c == nil {
		return "nil"
	}
	return "cmd{" + skExpr(c.Expr) + skRedirs(c.Redirs) + "}"
}

func skExpr(e ast.CmdExpr) string {
	switch e := e.(type) {
	case *ast.SimpleCmd:
		var as []string
		for _, a := range e.Assigns {
			n := "N"
			if a.Name != nil {
				n = hx(a.Name.Value)
			}
			as = append(as, n+hx(a.Op)+skWord(a.Value))
		}
		return "simple{(" + strings.Join(as, ";") + ")" + skWords(e.Args) + "}"
	case *ast.Subshell:
		return "subshell" + skCmds(e.List)
	case *ast.Group:
		return "group" + skCmds(e.List)
	case *ast.ArithEval:
		return "arith" + skWordM(e.Expr, false)
	case *ast.ForClause:
		n := "N"
		if e.Name != nil {
			n = hx(e.Name.Value)
		}
		in := "0"
		if !e.In.IsZero() {
			in = "1"
		}
		return "for{" + n + ":" + in + skWords(e.Items) + skCmds(e.List) + "}"
	case *ast.CaseClause:
		var its []string
		for _, it := range e.Items {
			br := "0"
			if !it.Break.IsZero() {
				br = "1"
			}
			its = append(its, "item{"+skWords(it.Patterns)+skCmds(it.List)+br+"}")
		}
		return "case{" + skWord(e.Word) + "(" + strings.Join(its, ";") + ")}"
	case *ast.IfClause:
		var el []string
		for _, x := range e.Else {
			switch x := x.(type) {
			case *ast.ElifClause:
				el = append(el, "elif{"+skCmds(x.Cond)+skCmds(x.List)+"}")
			case *ast.ElseClause:
				el = append(el, "else"+skCmds(x.List))
			}
		}
		return "if{" + skCmds(e.Cond) + skCmds(e.List) + "(" + strings.Join(el, ";") + ")}"
	case *ast.WhileClause:
		return "while{" + skCmds(e.Cond) + skCmds(e.List) + "}"
	case *ast.UntilClause:
		return "until{" + skCmds(e.Cond) + skCmds(e.List) + "}"
	case *ast.FuncDef:
		n := "N"
		if e.Name != nil {
			n = hx(e.Name.Value)
		}
		return "func{" + n + ":" + skCommand(e.Body) + "}"
	case nil:
		return "nil"
	}
	return fmt.Sprintf("?%T", e)
}
