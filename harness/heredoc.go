package main

import (
	"bytes"
	"reflect"
	"strconv"
	"strings"

	"github.com/hattya/go.sh/ast"
	"github.com/hattya/go.sh/parser"
	"github.com/hattya/go.sh/printer"
)

func init() { handlers["heredoc"] = heredocH }

// collectRedirs walks the commands in source order and returns every redirection.
func collectRedirs(v reflect.Value, out *[]*ast.Redir, depth int) {
	if depth > 300 {
		return
	}
	switch v.Kind() {
	case reflect.Ptr:
		if v.IsNil() {
			return
		}
		if r, ok := v.Interface().(*ast.Redir); ok {
			*out = append(*out, r)
			// here-document bodies may contain command substitutions with redirections of their own
			collectRedirs(reflect.ValueOf(r.Word), out, depth+1)
			collectRedirs(reflect.ValueOf(r.Heredoc), out, depth+1)
			return
		}
		collectRedirs(v.Elem(), out, depth+1)
	case reflect.Interface:
		if !v.IsNil() {
			collectRedirs(v.Elem(), out, depth+1)
		}
	case reflect.Struct:
		for i := 0; i < v.NumField(); i++ {
			collectRedirs(v.Field(i), out, depth+1)
		}
	case reflect.Slice:
		for i := 0; i < v.Len(); i++ {
			collectRedirs(v.Index(i), out, depth+1)
		}
	}
}

func printWord(w ast.Word) string {
	var b bytes.Buffer
	printer.Fprint(&b, w)
	return b.String()
}

// case: src(hex).  out: ok <op>|<hex heredoc>|<hex delim>|<x if the body holds expansion nodes>;...
func heredocH(line string) string {
	f := strings.Split(line, "\t")
	cmds, _, err := parseAll(unhex(f[0]))
	if err != nil {
		return "skip:" + fmtErr(err)
	}
	var rs []*ast.Redir
	collectRedirs(reflect.ValueOf(cmds), &rs, 0)
	var out []string
	for _, r := range rs {
		if r.Op != "<<" && r.Op != "<<-" {
			continue
		}
		x := ""
		if r.Heredoc == nil || r.Delim == nil {
			// the redirection of an accepted command did not receive a here-document at all
			out = append(out, hx(r.Op)+"|||nil")
			continue
		}
		for _, p := range r.Heredoc {
			if _, ok := p.(*ast.Lit); !ok {
				x = "x"
			}
		}
		out = append(out, hx(r.Op)+"|"+hx(printWord(r.Heredoc))+"|"+hx(printWord(r.Delim))+"|"+x)
	}
	return "ok " + strings.Join(out, ";")
}

func init() { handlers["hdoc"] = hdocH }

// case: dash (0|1) \t delimiter (hex) \t text after the command line (hex)
// out : ok <hex body> <hex delimiter line> <unread bytes> | err
func hdocH(line string) string {
	f := strings.Split(line, "\t")
	op := "<<"
	if f[0] == "1" {
		op = "<<-"
	}
	src := "cat " + op + "'" + unhex(f[1]) + "'\n" + unhex(f[2])
	if len(f) > 3 && f[3] == "u" {
		// unquoted delimiter (a plain word): the body is scanned
		src = "cat " + op + unhex(f[1]) + "\n" + unhex(f[2])
	}
	rs := &runeScanner{s: src, prev: -1, failAt: -1}
	cmds, _, err := parser.ParseCommands(nil, "t", rs)
	if err != nil {
		return "err"
	}
	var rsd []*ast.Redir
	collectRedirs(reflect.ValueOf(cmds), &rsd, 0)
	if len(rsd) != 1 {
		return "shape"
	}
	if rsd[0].Heredoc == nil || rsd[0].Delim == nil {
		return "nil-heredoc"
	}
	return "ok " + hx(printWord(rsd[0].Heredoc)) + " " + hx(printWord(rsd[0].Delim)) + " " + strconv.Itoa(len(src)-rs.off)
}
