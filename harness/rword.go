package main

import (
	"strings"

	"github.com/hattya/go.sh/ast"
	"github.com/hattya/go.sh/parser"
	"github.com/hattya/go.sh/printer"
)

func init() { handlers["rword"] = rwordH }

// case: text(hex): the text is written after a command name; the skeleton of the first argument word the parser
// builds, what the printer writes for that word, and the skeleton of the printed text parsed again.
func rwordH(line string) string {
	s := unhex(strings.Split(line, "\t")[0])
	w, st := firstArg("x " + s + "\n")
	if st != "" {
		return st
	}
	var b strings.Builder
	if err := printer.Fprint(&b, w); err != nil {
		return "printerr"
	}
	w2, st2 := firstArg("x " + b.String() + "\n")
	again := st2
	if st2 == "" {
		again = skWord(w2)
	}
	return skWord(w) + " " + hx(b.String()) + " " + again
}

func firstArg(src string) (ast.Word, string) {
	cmds, _, err := parser.ParseCommands(nil, "t", src)
	if err != nil {
		return nil, "error"
	}
	if len(cmds) == 1 {
		if c, ok := cmds[0].(*ast.Cmd); ok {
			if sc, ok := c.Expr.(*ast.SimpleCmd); ok && len(sc.Args) >= 2 && len(c.Redirs) == 0 {
				return sc.Args[1], ""
			}
			if sc, ok := c.Expr.(*ast.SimpleCmd); ok && len(sc.Args) == 1 {
				return nil, "noarg"
			}
		}
	}
	return nil, "shape"
}
