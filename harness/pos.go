package main

import (
	"fmt"
	"reflect"
	"strings"

	"github.com/hattya/go.sh/ast"
	"github.com/hattya/go.sh/parser"
)

func init() { handlers["pos"] = posH }

type posChecker struct {
	lines          [][]rune
	fail           string
	heredocOutside string
}

// hasHeredoc reports whether a here-document redirection is reachable from v.
func hasHeredoc(v reflect.Value, depth int) bool {
	if depth > 300 {
		return false
	}
	switch v.Kind() {
	case reflect.Ptr, reflect.Interface:
		if v.IsNil() {
			return false
		}
		if r, ok := v.Interface().(*ast.Redir); ok {
			return r.Op == "<<" || r.Op == "<<-"
		}
		return hasHeredoc(v.Elem(), depth+1)
	case reflect.Struct:
		for i := 0; i < v.NumField(); i++ {
			if hasHeredoc(v.Field(i), depth+1) {
				return true
			}
		}
	case reflect.Slice:
		for i := 0; i < v.Len(); i++ {
			if hasHeredoc(v.Index(i), depth+1) {
				return true
			}
		}
	}
	return false
}

func (pc *posChecker) failf(format string, a ...interface{}) {
	if pc.fail == "" {
		pc.fail = fmt.Sprintf(format, a...)
	}
}

// textAt returns the source text starting at p (to the end of the segment), "" if p is outside.
func (pc *posChecker) textAt(p ast.Pos) (string, bool) {
	l, c := p.Line(), p.Col()
	if l < 1 || l > len(pc.lines) || c < 1 || c > len(pc.lines[l-1])+1 {
		return "", false
	}
	var b strings.Builder
	b.WriteString(string(pc.lines[l-1][c-1:]))
	for i := l; i < len(pc.lines); i++ {
		b.WriteByte('\n')
		b.WriteString(string(pc.lines[i]))
	}
	return b.String(), true
}

// spells checks that the text at p starts with tok (line continuations inside the token are tolerated).
func (pc *posChecker) spells(what string, p ast.Pos, tok string) {
	if p.IsZero() {
		pc.failf("%s:zero-position:want=%s", what, hx(tok))
		return
	}
	t, ok := pc.textAt(p)
	if !ok {
		pc.failf("%s:outside-source:%d:%d", what, p.Line(), p.Col())
		return
	}
	if strings.HasPrefix(t, tok) {
		return
	}
	if strings.HasPrefix(strings.ReplaceAll(t, "\\\n", ""), tok) {
		return // documented exclusion: text inside line continuations
	}
	n := len(tok) + 6
	if n > len(t) {
		n = len(t)
	}
	pc.failf("%s:%d:%d:want=%s:got=%s", what, p.Line(), p.Col(), hx(tok), hx(t[:n]))
}

func (pc *posChecker) spellsOpt(what string, p ast.Pos, tok string) {
	if !p.IsZero() {
		pc.spells(what, p, tok)
	}
}

func (pc *posChecker) order(what string, n ast.Node) {
	if n == nil || reflect.ValueOf(n).Kind() == reflect.Ptr && reflect.ValueOf(n).IsNil() {
		return
	}
	p, e := n.Pos(), n.End()
	if p.After(e) {
		pc.failf("%s:pos-after-end:%d:%d>%d:%d", what, p.Line(), p.Col(), e.Line(), e.Col())
	}
	if e.IsZero() && !p.IsZero() {
		pc.failf("%s:zero-end", what)
	}
	if p.IsZero() && !e.IsZero() {
		pc.failf("%s:zero-pos:end=%d:%d", what, e.Line(), e.Col())
	}
	if _, ok := pc.textAt(p); !ok && !p.IsZero() {
		pc.failf("%s:pos-outside:%d:%d", what, p.Line(), p.Col())
	}
	if !e.IsZero() {
		if _, ok := pc.textAt(e); !ok {
			pc.failf("%s:end-outside:%d:%d", what, e.Line(), e.Col())
		}
	}
}

func (pc *posChecker) inside(what string, parent, child ast.Node) {
	pp, pe, cp, ce := parent.Pos(), parent.End(), child.Pos(), child.End()
	if cp.IsZero() || pp.IsZero() {
		return
	}
	if cp.Before(pp) || ce.After(pe) {
		if ce.After(pe) && !cp.Before(pp) && hasHeredoc(reflect.ValueOf(child), 0) {
			// known finding F28: a here-document body lies after the line, outside the extent of enclosing nodes
			if pc.heredocOutside == "" {
				pc.heredocOutside = what
			}
			return
		}
		pc.failf("%s:child-outside-parent:child=%d:%d-%d:%d:parent=%d:%d-%d:%d", what, cp.Line(), cp.Col(), ce.Line(), ce.Col(), pp.Line(), pp.Col(), pe.Line(), pe.Col())
	}
}

func (pc *posChecker) increasing(what string, a, b ast.Node) {
	if a.Pos().IsZero() || b.Pos().IsZero() {
		return
	}
	if !a.Pos().Before(b.Pos()) {
		pc.failf("%s:siblings-not-increasing:%d:%d,%d:%d", what, a.Pos().Line(), a.Pos().Col(), b.Pos().Line(), b.Pos().Col())
	}
}

func (pc *posChecker) word(what string, w ast.Word, heredoc bool) {
	if len(w) == 0 {
		return
	}
	pc.order(what+".Word", w)
	for i, p := range w {
		pc.order(fmt.Sprintf("%s[%d]", what, i), p)
		pc.inside(what, w, p)
		if i > 0 {
			pc.increasing(what, w[i-1], p)
		}
		switch p := p.(type) {
		case *ast.Lit:
			v := p.Value
			if j := strings.IndexByte(v, '\n'); j >= 0 && heredoc {
				v = v[:j]
			}
			if v != "" {
				pc.spells(what+".Lit", p.ValuePos, v)
			}
		case *ast.Quote:
			pc.spells(what+".Quote.Tok", p.TokPos, p.Tok)
			pc.word(what+".Quote", p.Value, heredoc)
		case *ast.ParamExp:
			if p.Braces {
				pc.spells(what+".ParamExp.Dollar", p.Dollar, "${")
			} else {
				pc.spells(what+".ParamExp.Dollar", p.Dollar, "$")
			}
			if p.Name != nil {
				pc.spells(what+".ParamExp.Name", p.Name.ValuePos, p.Name.Value)
			}
			if p.Op != "" {
				pc.spells(what+".ParamExp.Op", p.OpPos, p.Op)
			}
			pc.word(what+".ParamExp.Word", p.Word, heredoc)
		case *ast.CmdSubst:
			if p.Dollar {
				pc.spells(what+".CmdSubst.Left", p.Left, "(")
				pc.spells(what+".CmdSubst.Right", p.Right, ")")
			} else {
				pc.spells(what+".CmdSubst.Left", p.Left, "`")
				pc.spells(what+".CmdSubst.Right", p.Right, "`")
			}
			pc.cmds(what+".CmdSubst", p.List)
		case *ast.ArithExp:
			pc.spells(what+".ArithExp.Left", p.Left, "$((")
			pc.spells(what+".ArithExp.Right", p.Right, "))")
			pc.word(what+".ArithExp.Expr", p.Expr, heredoc)
		}
	}
}

func (pc *posChecker) redirs(what string, rs []*ast.Redir) {
	for _, r := range rs {
		pc.order(what+".Redir", r)
		if r.N != nil {
			pc.spells(what+".Redir.N", r.N.ValuePos, r.N.Value)
		}
		pc.spells(what+".Redir.Op", r.OpPos, r.Op)
		pc.word(what+".Redir.Word", r.Word, false)
		pc.word(what+".Redir.Heredoc", r.Heredoc, true)
		pc.word(what+".Redir.Delim", r.Delim, true)
		// the redirection contains its own here-document (children lie inside their parents)
		if len(r.Heredoc) != 0 && r.Heredoc.End().After(r.End()) {
			pc.failf("%s.Redir:heredoc-outside-redir:heredoc-end=%d:%d:redir-end=%d:%d", what, r.Heredoc.End().Line(), r.Heredoc.End().Col(), r.End().Line(), r.End().Col())
		}
	}
}

func (pc *posChecker) cmds(what string, cs []ast.Command) {
	for i, c := range cs {
		pc.command(what, c)
		if i > 0 {
			pc.increasing(what+".commands", cs[i-1], c)
		}
	}
}

func (pc *posChecker) command(what string, c ast.Command) {
	pc.order(what+".Command", c)
	switch c := c.(type) {
	case ast.List:
		for i, a := range c {
			pc.inside(what+".List", c, a)
			if i > 0 {
				pc.increasing(what+".List", c[i-1], a)
			}
			pc.command(what, a)
		}
	case *ast.AndOrList:
		if c.Sep != "" {
			pc.spells(what+".AndOrList.Sep", c.SepPos, c.Sep)
		}
		if c.Pipeline != nil {
			pc.inside(what+".AndOrList", c, c.Pipeline)
			pc.command(what, c.Pipeline)
		}
		for _, ao := range c.List {
			pc.spells(what+".AndOr.Op", ao.OpPos, ao.Op)
			if ao.Pipeline != nil {
				pc.command(what, ao.Pipeline)
			}
		}
	case *ast.Pipeline:
		pc.spellsOpt(what+".Pipeline.Bang", c.Bang, "!")
		if c.Cmd != nil {
			pc.inside(what+".Pipeline", c, c.Cmd)
			pc.command(what, c.Cmd)
		}
		for _, p := range c.List {
			pc.spells(what+".Pipe.Op", p.OpPos, p.Op)
			if p.Cmd != nil {
				pc.command(what, p.Cmd)
			}
		}
	case *ast.Cmd:
		pc.redirs(what, c.Redirs)
		pc.expr(what, c.Expr)
	}
}

func (pc *posChecker) expr(what string, e ast.CmdExpr) {
	if e == nil || reflect.ValueOf(e).IsNil() {
		return
	}
	pc.order(what+".Expr", e)
	switch e := e.(type) {
	case *ast.SimpleCmd:
		for _, a := range e.Assigns {
			pc.order(what+".Assign", a)
			if a.Name != nil {
				pc.spells(what+".Assign.Name", a.Name.ValuePos, a.Name.Value+a.Op)
			}
			pc.word(what+".Assign.Value", a.Value, false)
		}
		for _, w := range e.Args {
			pc.word(what+".Arg", w, false)
		}
	case *ast.Subshell:
		pc.spells(what+".Subshell.Lparen", e.Lparen, "(")
		pc.spells(what+".Subshell.Rparen", e.Rparen, ")")
		pc.cmds(what+".Subshell", e.List)
	case *ast.Group:
		pc.spells(what+".Group.Lbrace", e.Lbrace, "{")
		pc.spells(what+".Group.Rbrace", e.Rbrace, "}")
		pc.cmds(what+".Group", e.List)
	case *ast.ArithEval:
		pc.spells(what+".ArithEval.Left", e.Left, "((")
		pc.spells(what+".ArithEval.Right", e.Right, "))")
		pc.word(what+".ArithEval.Expr", e.Expr, false)
	case *ast.ForClause:
		pc.spells(what+".For.For", e.For, "for")
		if e.Name != nil {
			pc.spells(what+".For.Name", e.Name.ValuePos, e.Name.Value)
		}
		pc.spellsOpt(what+".For.In", e.In, "in")
		pc.spellsOpt(what+".For.Semicolon", e.Semicolon, ";")
		pc.spells(what+".For.Do", e.Do, "do")
		pc.spells(what+".For.Done", e.Done, "done")
		for _, w := range e.Items {
			pc.word(what+".For.Item", w, false)
		}
		pc.cmds(what+".For", e.List)
	case *ast.CaseClause:
		pc.spells(what+".Case.Case", e.Case, "case")
		pc.spells(what+".Case.In", e.In, "in")
		pc.spells(what+".Case.Esac", e.Esac, "esac")
		pc.word(what+".Case.Word", e.Word, false)
		for _, it := range e.Items {
			pc.order(what+".CaseItem", it)
			pc.spellsOpt(what+".CaseItem.Lparen", it.Lparen, "(")
			pc.spells(what+".CaseItem.Rparen", it.Rparen, ")")
			pc.spellsOpt(what+".CaseItem.Break", it.Break, ";;")
			for _, w := range it.Patterns {
				pc.word(what+".CaseItem.Pattern", w, false)
			}
			pc.cmds(what+".CaseItem", it.List)
		}
	case *ast.IfClause:
		pc.spells(what+".If.If", e.If, "if")
		pc.spells(what+".If.Then", e.Then, "then")
		pc.spells(what+".If.Fi", e.Fi, "fi")
		pc.cmds(what+".If.Cond", e.Cond)
		pc.cmds(what+".If.List", e.List)
		for _, x := range e.Else {
			pc.order(what+".ElsePart", x)
			switch x := x.(type) {
			case *ast.ElifClause:
				pc.spells(what+".Elif.Elif", x.Elif, "elif")
				pc.spells(what+".Elif.Then", x.Then, "then")
				pc.cmds(what+".Elif.Cond", x.Cond)
				pc.cmds(what+".Elif.List", x.List)
			case *ast.ElseClause:
				pc.spells(what+".Else.Else", x.Else, "else")
				pc.cmds(what+".Else.List", x.List)
			}
		}
	case *ast.WhileClause:
		pc.spells(what+".While.While", e.While, "while")
		pc.spells(what+".While.Do", e.Do, "do")
		pc.spells(what+".While.Done", e.Done, "done")
		pc.cmds(what+".While.Cond", e.Cond)
		pc.cmds(what+".While.List", e.List)
	case *ast.UntilClause:
		pc.spells(what+".Until.Until", e.Until, "until")
		pc.spells(what+".Until.Do", e.Do, "do")
		pc.spells(what+".Until.Done", e.Done, "done")
		pc.cmds(what+".Until.Cond", e.Cond)
		pc.cmds(what+".Until.List", e.List)
	case *ast.FuncDef:
		if e.Name != nil {
			pc.spells(what+".FuncDef.Name", e.Name.ValuePos, e.Name.Value)
		}
		pc.spells(what+".FuncDef.Lparen", e.Lparen, "(")
		pc.spells(what+".FuncDef.Rparen", e.Rparen, ")")
		if e.Body != nil {
			pc.command(what+".FuncDef", e.Body)
		}
	}
}

// case: src(hex).  Every ParseCommands call is checked against the text it consumed (positions restart at 1:1 per call).
func posH(line string) string {
	src := unhex(strings.Split(line, "\t")[0])
	rs := &runeScanner{s: src, prev: -1, failAt: -1}
	n := 0
	known := ""
	for i := 0; i < 10000; i++ {
		start := rs.off
		cmds, comments, err := parser.ParseCommands(nil, "t", rs)
		if err != nil {
			return "skip:" + fmtErr(err)
		}
		seg := src[start:rs.off]
		pc := &posChecker{}
		for _, l := range strings.Split(seg, "\n") {
			pc.lines = append(pc.lines, []rune(l))
		}
		pc.cmds("cmd", cmds)
		for _, c := range comments {
			pc.spells("Comment.Hash", c.Hash, "#"+c.Text)
		}
		if pc.fail != "" {
			return "FAIL:" + pc.fail + ":seg=" + hx(seg)
		}
		if pc.heredocOutside != "" && known == "" {
			known = pc.heredocOutside
		}
		n += len(cmds)
		if rs.off >= len(src) {
			break
		}
	}
	if known != "" {
		return "KNOWN:F28:" + known
	}
	return fmt.Sprintf("ok cmds=%d", n)
}
