package main

import (
	"bytes"
	"errors"
	"fmt"
	"io"
	"reflect"
	"strconv"
	"strings"

	"github.com/hattya/go.sh/ast"
	"github.com/hattya/go.sh/parser"
	"github.com/hattya/go.sh/printer"
)

func init() {
	handlers["rt"] = rtH
}

// deepDump renders every field (positions and separators included) of a value reachable from v.
func deepDump(b *strings.Builder, v reflect.Value, depth int) {
	if depth > 200 {
		b.WriteString("<deep>")
		return
	}
	switch v.Kind() {
	case reflect.Ptr, reflect.Interface:
		if v.IsNil() {
			b.WriteString("nil")
			return
		}
		if v.Kind() == reflect.Interface {
			b.WriteString(v.Elem().Type().String())
		}
		b.WriteString("&")
		deepDump(b, v.Elem(), depth+1)
	case reflect.Struct:
		b.WriteString(v.Type().Name() + "{")
		for i := 0; i < v.NumField(); i++ {
			b.WriteString(v.Type().Field(i).Name + ":")
			deepDump(b, v.Field(i), depth+1)
			b.WriteString(",")
		}
		b.WriteString("}")
	case reflect.Slice:
		if v.IsNil() {
			b.WriteString("nil[]")
			return
		}
		b.WriteString("[")
		for i := 0; i < v.Len(); i++ {
			deepDump(b, v.Index(i), depth+1)
			b.WriteString(",")
		}
		b.WriteString("]")
	case reflect.String:
		b.WriteString(strconv.Quote(v.String()))
	case reflect.Int, reflect.Int64, reflect.Uint, reflect.Uint32:
		if v.CanInt() {
			b.WriteString(strconv.FormatInt(v.Int(), 10))
		} else {
			b.WriteString(strconv.FormatUint(v.Uint(), 10))
		}
	case reflect.Bool:
		b.WriteString(strconv.FormatBool(v.Bool()))
	default:
		b.WriteString("?" + v.Kind().String())
	}
}

func dumpCmds(cs []ast.Command) string {
	var b strings.Builder
	for _, c := range cs {
		deepDump(&b, reflect.ValueOf(&c).Elem(), 0)
		b.WriteString(";")
	}
	return b.String()
}

// parseAll reads every command line of src through one RuneScanner.
func parseAll(src string) ([]ast.Command, []*ast.Comment, error) {
	rs := &runeScanner{s: src, prev: -1, failAt: -1}
	var cmds []ast.Command
	var comments []*ast.Comment
	for i := 0; i < 100000; i++ {
		c, m, err := parser.ParseCommands(nil, "t", rs)
		cmds = append(cmds, c...)
		comments = append(comments, m...)
		if err != nil {
			return cmds, comments, err
		}
		if rs.off >= len(rs.s) {
			break
		}
	}
	return cmds, comments, nil
}

func config(i int) *printer.Config {
	c := &printer.Config{}
	if i&1 == 0 {
		c.Indent = printer.Tab
	} else {
		c.Indent = printer.Space
	}
	if i&2 == 0 {
		c.Width = 2
	} else {
		c.Width = 4
	}
	if i&4 == 0 {
		c.Redir = printer.After
	} else {
		c.Redir = printer.Before
	}
	if i&8 != 0 {
		c.Redir |= printer.Space
	}
	if i&16 == 0 {
		c.Assign = printer.Before
	} else {
		c.Assign = printer.After
	}
	if i&32 != 0 {
		c.Do = printer.Newline
	}
	if i&64 != 0 {
		c.Case = true
	}
	if i&128 != 0 {
		c.Then = printer.Newline
	}
	return c
}

func printAll(cfg *printer.Config, cmds []ast.Command) (string, error) {
	var b bytes.Buffer
	for _, c := range cmds {
		if err := cfg.Fprint(&b, c); err != nil {
			return b.String(), err
		}
		b.WriteByte('\n')
	}
	return b.String(), nil
}

type failWriter struct {
	n int
}

var errWrite = errors.New("injected write failure")

func (w *failWriter) Write(p []byte) (int, error) {
	if len(p) <= w.n {
		w.n -= len(p)
		return len(p), nil
	}
	k := w.n
	w.n = 0
	return k, errWrite
}

// case: src(hex) \t configs ("all" | "i,j,k") \t flags (w = failing writers)
// out : skip:<why> | ok n=<configs> | FAIL:<kind>:cfg=<i>:<hex text>
func rtH(line string) string {
	f := strings.Split(line, "\t")
	src := unhex(f[0])
	type res struct{ s string }
	ch := make(chan string, 1)
	go func() {
		defer func() {
			if e := recover(); e != nil {
				ch <- "FAIL:panic:" + hx(fmt.Sprint(e))
			}
		}()
		ch <- rtRun(src, f[1], len(f) > 2 && strings.Contains(f[2], "w"))
	}()
	return <-ch
}

func rtRun(src, cfgs string, writers bool) string {
	cmds, _, err := parseAll(src)
	if err != nil {
		return "skip:" + fmtErr(err)
	}
	if len(cmds) == 0 {
		return "skip:empty"
	}
	// the printer always writes ';;' after the last case item: whether the source had it is not part of the program
	lastBreak := func(k string) string { return strings.ReplaceAll(k, "0})}", "1})}") }
	k0 := lastBreak(skCmds(cmds))
	var idx []int
	if cfgs == "all" {
		for i := 0; i < 256; i++ {
			idx = append(idx, i)
		}
	} else {
		for _, s := range strings.Split(cfgs, ",") {
			i, _ := strconv.Atoi(s)
			idx = append(idx, i)
		}
	}
	for _, i := range idx {
		cfg := config(i)
		before := dumpCmds(cmds)
		text, err := printAll(cfg, cmds)
		tag := ":cfg=" + strconv.Itoa(i) + ":" + hx(text)
		if err != nil {
			return "FAIL:print-error" + tag
		}
		if dumpCmds(cmds) != before {
			return "FAIL:tree-modified" + tag
		}
		again, _ := printAll(cfg, cmds)
		if again != text {
			return "FAIL:nondeterministic" + tag
		}
		cmds2, _, err := parseAll(text)
		if err != nil {
			return "FAIL:reparse-error:" + fmtErr(err) + tag
		}
		// both are reported: a printed text that is another program and is not a fix-point either
		var kinds []string
		if k := lastBreak(skCmds(cmds2)); k != k0 {
			kinds = append(kinds, "different-program")
		}
		text2, _ := printAll(cfg, cmds2)
		if text2 != text {
			kinds = append(kinds, "not-idempotent")
		}
		if len(kinds) != 0 {
			return "FAIL:" + strings.Join(kinds, ",") + tag + ":" + hx(text2)
		}
		if writers && i == idx[0] {
			for _, c := range cmds {
				var full bytes.Buffer
				cfg.Fprint(&full, c)
				for k := 0; k < full.Len(); k++ {
					if err := cfg.Fprint(&failWriter{n: k}, c); err == nil {
						return "FAIL:write-error-ignored:k=" + strconv.Itoa(k) + tag
					}
				}
				if err := cfg.Fprint(io.Discard, c); err != nil {
					return "FAIL:spurious-write-error" + tag
				}
			}
		}
	}
	return "ok n=" + strconv.Itoa(len(idx))
}
