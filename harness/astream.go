package main

import (
	"strings"
	"sync"
	"time"

	"github.com/hattya/go.sh/parser"
)

func init() { handlers["astream"] = astreamH }

// case: source(hex) \t aliases.  out: ok <events>: the reads (r<hex of the rune>, e = end of input), unreads (u) and
// substitutions (s<hexname> performed, g<hexname> refused by the guard) of every lexer that reads the source itself or the
// alias stack (lexers of substitutions that read through the alias stack are seen through the lexer that owns it).
func astreamH(line string) string {
	f := strings.Split(line, "\t")
	src := unhex(f[0])
	var mu sync.Mutex
	var evs []string
	parser.VerifAliasHook = func(direct bool, op int, r rune, name string) {
		if !direct {
			return
		}
		mu.Lock()
		defer mu.Unlock()
		switch op {
		case 1:
			evs = append(evs, "r"+hx(string(r)))
		case 2:
			evs = append(evs, "u")
		case 3:
			evs = append(evs, "s"+hx(name))
		case 4:
			evs = append(evs, "e")
		case 5:
			evs = append(evs, "g"+hx(name))
		}
	}
	defer func() { parser.VerifAliasHook = nil }()
	done := make(chan struct{})
	go func() {
		defer close(done)
		parser.ParseCommands(mkAliasEnv(f[1]), "t", &runeScanner{s: src, prev: -1, failAt: -1})
	}()
	select {
	case <-done:
	case <-time.After(watchdog(5)):
		mustRestart = true
		return "HANG"
	}
	mu.Lock()
	defer mu.Unlock()
	return "ok " + strings.Join(evs, ",")
}
