package main

import (
	"os/user"
	"strconv"
	"strings"

	"github.com/hattya/go.sh/ast"
	"github.com/hattya/go.sh/interp"
	"github.com/hattya/go.sh/pattern"
)

func init() {
	handlers["xp"] = xp
	handlers["users"] = func(line string) string {
		if u, err := user.Lookup(unhex(line)); err == nil {
			return hx(u.HomeDir)
		}
		return "-"
	}
}

// parseWord decodes the serialized word:  L<hex> | Q<tok>( .. ) | P<name>,<op>,N | P<name>,<op>,( .. ) | A( .. ) | O
func parseWord(toks []string, i int) (ast.Word, int) {
	w := ast.Word{}
	for i < len(toks) {
		t := toks[i]
		switch {
		case t == ")":
			return w, i + 1
		case t == "O":
			w = append(w, &ast.CmdSubst{Dollar: true})
			i++
		case t[0] == 'L':
			w = append(w, &ast.Lit{Value: unhex(t[1:])})
			i++
		case t[0] == 'Q':
			tok, _ := strconv.Atoi(strings.TrimSuffix(t[1:], "("))
			v, j := parseWord(toks, i+1)
			w = append(w, &ast.Quote{Tok: string(rune(tok)), Value: v})
			i = j
		case t[0] == 'A':
			v, j := parseWord(toks, i+1)
			w = append(w, &ast.ArithExp{Expr: v})
			i = j
		case t[0] == 'P':
			f := strings.Split(t[1:], ",")
			pe := &ast.ParamExp{Braces: true, Name: &ast.Lit{Value: unhex(f[0])}, Op: unhex(f[1])}
			if f[2] == "N" {
				i++
			} else {
				v, j := parseWord(toks, i+1)
				pe.Word = v
				i = j
			}
			w = append(w, pe)
		default:
			panic("bad word token " + t)
		}
	}
	return w, i
}

func xp(line string) string {
	f := strings.Split(line, "\t")
	env := newEnv(f[0], f[1])
	env.Unset("IFS")
	for _, kv := range splitNE(f[2], ",") {
		p := strings.Split(kv, "=")
		env.Set(unhex(p[0]), unhex(p[1]))
	}
	mode, _ := strconv.Atoi(f[3])
	w, _ := parseWord(splitNE(f[4], " "), 0)
	fields, err := env.Expand(w, interp.ExpMode(mode))
	var r string
	switch e := err.(type) {
	case nil:
		var hs []string
		for _, s := range fields {
			hs = append(hs, hx(s))
		}
		r = "ok:" + strconv.Itoa(len(fields)) + ":" + strings.Join(hs, ",")
	case interp.ParamExpError:
		r = "err:param:" + hx(e.ParamExp.Name.Value) + ":" + hx(e.Msg)
	case interp.ArithExprError:
		r = "err:arith"
	default:
		if err == pattern.NoMatch {
			r = "err:nomatch"
		} else {
			r = "err:pattern"
		}
	}
	return r + " S=" + fmtStore(env)
}
