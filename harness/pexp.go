package main

import (
	"strings"

	"github.com/hattya/go.sh/ast"
	"github.com/hattya/go.sh/printer"
)

func init() { handlers["pexp"] = pexpH }

// case: braces(0|1) \t name(hex) \t op(hex) \t word("-" = nil | hex of a literal, "" = empty word).
// What the printer writes for the parameter expansion built from these fields (the model of its notation is
// print_pexp in coq/theories/Lex/Reprint.v).
func pexpH(line string) string {
	f := strings.Split(line, "\t")
	pe := &ast.ParamExp{Braces: f[0] == "1", Name: &ast.Lit{Value: unhex(f[1])}, Op: unhex(f[2])}
	if f[3] != "-" {
		pe.Word = ast.Word{}
		if f[3] != "" {
			pe.Word = append(pe.Word, &ast.Lit{Value: unhex(f[3])})
		}
	}
	var b strings.Builder
	if err := printer.Fprint(&b, ast.Word{pe}); err != nil {
		return "printerr"
	}
	return hx(b.String())
}
