package main

import (
	"strconv"
	"strings"
)

func init() { handlers["layout"] = layoutH }

// case: srcA(hex) \t commentsA(c+hex,comma) \t srcB(hex) \t commentsB(c+hex,comma)
// Both renderings of one program must parse to the same skeleton and return exactly their own comments, in order.
func layoutH(line string) string {
	f := strings.Split(line, "\t")
	type one struct {
		k string
		c []string
	}
	var r [2]one
	for i := 0; i < 2; i++ {
		cmds, comments, err := parseAll(unhex(f[2*i]))
		if err != nil {
			return "skip:" + strconv.Itoa(i) + ":" + fmtErr(err)
		}
		r[i].k = skCmds(cmds)
		for _, c := range comments {
			r[i].c = append(r[i].c, c.Text)
		}
		if f[2*i+1] == "*" {
			// the comments of this rendering are not predicted
			continue
		}
		var want []string
		for _, h := range splitNE(f[2*i+1], ",") {
			want = append(want, unhex(strings.TrimPrefix(h, "c")))
		}
		if len(want) != len(r[i].c) {
			return "FAIL:comments:" + strconv.Itoa(i) + ":got=" + strconv.Itoa(len(r[i].c)) + ":want=" + strconv.Itoa(len(want))
		}
		for j := range want {
			if want[j] != r[i].c[j] {
				return "FAIL:comment-text:" + strconv.Itoa(i) + ":" + hx(r[i].c[j]) + ":" + hx(want[j])
			}
		}
	}
	if r[0].k != r[1].k {
		return "FAIL:different-program@@" + r[0].k + "@@" + r[1].k
	}
	return "ok"
}
