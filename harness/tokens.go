package main

import (
	"strconv"
	"strings"
	"sync"

	"github.com/hattya/go.sh/ast"
	"github.com/hattya/go.sh/parser"
)

// token tap: the tokens the top-level parser received during one ParseCommands call

type tokEv struct {
	typ int
	pos ast.Pos
	val string
	w   string
}

var (
	tokMu  sync.Mutex
	tokLog []tokEv
)

func init() {
	handlers["tokens"] = tokensH
	parser.VerifTokenHook = func(lx interface{}, nested bool, typ int, pos ast.Pos, val string, w ast.Word) {
		if nested {
			return
		}
		tokMu.Lock()
		// the word is rendered now: the rule actions edit its nodes in place later
		ws := "-"
		if w != nil {
			// the word of an arithmetic command keeps its blank-separated literals apart
			arith := len(tokLog) > 0 && tokLog[len(tokLog)-1].typ == parser.LAE
			ws = skWordM(w, !arith)
		}
		tokLog = append(tokLog, tokEv{typ, pos, val, ws})
		tokMu.Unlock()
	}
}

var tokNames = map[int]string{
	parser.AND: "AND", parser.OR: "OR", '|': "PIPE", '(': "LPAREN", ')': "RPAREN", parser.LAE: "LAE", parser.RAE: "RAE",
	parser.BREAK: "BREAK", '&': "AMP", ';': "SEMI", '<': "LT", '>': "GT", parser.CLOBBER: "CLOBBER", parser.APPEND: "APPEND",
	parser.HEREDOC: "HEREDOC", parser.HEREDOCI: "HEREDOCI", parser.DUPIN: "DUPIN", parser.DUPOUT: "DUPOUT", parser.RDWR: "RDWR",
	parser.IO_NUMBER: "IONUM", parser.WORD: "WORD", parser.NAME: "NAME", parser.ASSIGNMENT_WORD: "ASSIGN",
	parser.Bang: "BANG", parser.Lbrace: "LBRACE", parser.Rbrace: "RBRACE", parser.For: "FOR", parser.Case: "CASE", parser.Esac: "ESAC",
	parser.In: "IN", parser.If: "IF", parser.Elif: "ELIF", parser.Then: "THEN", parser.Else: "ELSE", parser.Fi: "FI",
	parser.While: "WHILE", parser.Until: "UNTIL", parser.Do: "DO", parser.Done: "DONE", '\n': "NL",
}

// here-document bodies of the top-level token stream, in announcement order
func hereBodies(cmds []ast.Command) []string {
	var out []string
	var walkCmds func(cs []ast.Command)
	var walkCmd func(c *ast.Cmd)
	var walkAO func(a *ast.AndOrList)
	walkPl := func(p *ast.Pipeline) {
		if p == nil {
			return
		}
		walkCmd(p.Cmd)
		for _, x := range p.List {
			walkCmd(x.Cmd)
		}
	}
	walkAO = func(a *ast.AndOrList) {
		if a == nil {
			return
		}
		walkPl(a.Pipeline)
		for _, x := range a.List {
			walkPl(x.Pipeline)
		}
	}
	var walkCommand func(c ast.Command)
	walkCommand = func(c ast.Command) {
		switch c := c.(type) {
		case ast.List:
			for _, a := range c {
				walkAO(a)
			}
		case *ast.AndOrList:
			walkAO(c)
		case *ast.Pipeline:
			walkPl(c)
		case *ast.Cmd:
			walkCmd(c)
		}
	}
	walkCmds = func(cs []ast.Command) {
		for _, c := range cs {
			walkCommand(c)
		}
	}
	walkCmd = func(c *ast.Cmd) {
		if c == nil {
			return
		}
		switch e := c.Expr.(type) {
		case *ast.Subshell:
			walkCmds(e.List)
		case *ast.Group:
			walkCmds(e.List)
		case *ast.ForClause:
			walkCmds(e.List)
		case *ast.CaseClause:
			for _, it := range e.Items {
				walkCmds(it.List)
			}
		case *ast.IfClause:
			walkCmds(e.Cond)
			walkCmds(e.List)
			for _, x := range e.Else {
				switch x := x.(type) {
				case *ast.ElifClause:
					walkCmds(x.Cond)
					walkCmds(x.List)
				case *ast.ElseClause:
					walkCmds(x.List)
				}
			}
		case *ast.WhileClause:
			walkCmds(e.Cond)
			walkCmds(e.List)
		case *ast.UntilClause:
			walkCmds(e.Cond)
			walkCmds(e.List)
		case *ast.FuncDef:
			walkCommand(e.Body)
		}
		for _, r := range c.Redirs {
			if r.Op == "<<" || r.Op == "<<-" {
				out = append(out, skWord(r.Heredoc)+"~"+skWord(r.Delim))
			}
		}
	}
	walkCmds(cmds)
	return out
}

// case: src(hex)
// out : ok T=<kind#word#line.col@...> H=<heredoc~delim|...> K=<skeleton> E=<err> R=<rest>
func tokensH(line string) string {
	f := strings.Split(line, "\t")
	tokMu.Lock()
	tokLog = nil
	tokMu.Unlock()
	r, st := parseOnce(nil, unhex(f[0]), "R", -1)
	if st != "ok" {
		return st
	}
	tokMu.Lock()
	log := tokLog
	tokLog = nil
	tokMu.Unlock()
	var ts []string
	for _, t := range log {
		n, ok := tokNames[t.typ]
		if !ok {
			n = "T" + strconv.Itoa(t.typ)
		}
		ts = append(ts, n+"#"+t.w+"#"+strconv.Itoa(t.pos.Line())+"."+strconv.Itoa(t.pos.Col()))
	}
	return "ok T=" + strings.Join(ts, "@") + " H=" + strings.Join(hereBodies(r.cmds), "|") + " K=" + skCmds(r.cmds) + " M=" + fmtComments(r.comments) + " E=" + fmtErr(r.err) + " R=" + strconv.Itoa(r.rest)
}
