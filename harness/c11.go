package main

import (
	"sort"
	"strconv"
	"strings"
	"unicode"

	"github.com/hattya/go.sh/interp"
)

func init() {
	handlers["c11"] = c11
	handlers["unicode"] = uni
}

func fmtStore(env *interp.ExecEnv) string {
	m := map[string]string{}
	var keys []string
	env.Walk(func(v interp.Var) {
		keys = append(keys, v.Name)
		m[v.Name] = v.Value
	})
	sort.Strings(keys)
	var kv []string
	for _, k := range keys {
		kv = append(kv, hx(k)+"="+hx(m[k]))
	}
	return strings.Join(kv, ",")
}

func arithKind(err error) string {
	e, ok := err.(interp.ArithExprError)
	if !ok {
		return "other"
	}
	switch {
	case strings.HasPrefix(e.Msg, "invalid number"):
		return "invalid"
	case strings.HasSuffix(e.Msg, "requires lvalue"):
		return "lvalue"
	case e.Msg == "integer divide by zero":
		return "div0"
	case e.Msg == "negative shift amount":
		return "negshift"
	}
	return "syntax"
}

func c11(line string) string {
	f := strings.Split(line, "\t")
	env := newEnv(hx("sh"), "0")
	for _, kv := range splitNE(f[0], ",") {
		p := strings.Split(kv, "=")
		env.Set(unhex(p[0]), unhex(p[1]))
	}
	n, err := env.Eval(unhex(f[1]))
	var r string
	if err != nil {
		r = "err:" + arithKind(err)
	} else {
		r = "ok:" + strconv.Itoa(n)
	}
	return r + " S=" + fmtStore(env)
}

func uni(line string) string {
	r, _ := strconv.Atoi(line)
	b := func(x bool) string {
		if x {
			return "1"
		}
		return "0"
	}
	// the model's universe bit is echoed by the comparison side; report Go's tables
	return b(unicode.IsLetter(rune(r))) + b(unicode.IsDigit(rune(r)))
}
