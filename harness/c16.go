package main

import (
	"os"
	"path/filepath"
	"strings"

	"github.com/hattya/go.sh/pattern"
)

func init() { handlers["c16"] = c16 }

// case: entries (hexpath:type, comma separated; type f|d|l)  \t  pattern (hex; "@ROOT@" stands for the scratch directory)
func c16(line string) string {
	f := strings.Split(line, "\t")
	if f[0] == lastTree && lastDir != "" {
		return globIn(lastDir, unhex(f[1]))
	}
	if lastDir != "" {
		os.RemoveAll(lastBase)
		lastDir = ""
	}
	// The tree lives at the bottom of a chain of directories that are all called R and contain nothing but the next R, so
	// that a pattern climbing out of the tree with ".." sees what the model assumes above the root (a directory holding
	// only R), whatever else exists on this machine.
	base, err := os.MkdirTemp(scratchBase(), "verifc16")
	if err != nil {
		return "HARNESS-ERROR " + err.Error()
	}
	lastBase = base
	dir := base
	for i := 0; i < 8; i++ {
		dir = filepath.Join(dir, "R")
	}
	if err := os.MkdirAll(dir, 0o755); err != nil {
		return "HARNESS-ERROR " + err.Error()
	}
	lastDir, lastTree = dir, f[0]
	os.Mkdir(filepath.Join(dir, "R"), 0o755)
	for _, e := range splitNE(f[0], ",") {
		p := strings.Split(e, ":")
		var comps []string
		for _, c := range strings.Split(p[0], "/") {
			comps = append(comps, unhex(c))
		}
		full := filepath.Join(append([]string{dir, "R"}, comps...)...)
		switch p[1] {
		case "d":
			os.MkdirAll(full, 0o755)
		case "f":
			os.MkdirAll(filepath.Dir(full), 0o755)
			os.WriteFile(full, nil, 0o644)
		case "l":
			os.MkdirAll(filepath.Dir(full), 0o755)
			os.Symlink("no-such-target", full)
		}
	}
	return globIn(dir, unhex(f[1]))
}

var lastDir, lastTree, lastBase string

// scratchBase: next to the harness binary (under /verif/build), never /tmp
func scratchBase() string {
	if exe, err := os.Executable(); err == nil {
		return filepath.Dir(exe)
	}
	return ""
}

// cleanupC16 removes the cached scratch tree (called when the harness exits).
func cleanupC16() {
	if lastBase != "" {
		os.RemoveAll(lastBase)
	}
}

func globIn(dir, rawpat string) string {
	wd, _ := os.Getwd()
	dir = filepath.Join(dir, "R")
	if err := os.Chdir(dir); err != nil {
		return "HARNESS-ERROR " + err.Error()
	}
	defer os.Chdir(wd)
	pat := strings.ReplaceAll(rawpat, "@ROOT@", dir)
	paths, err := pattern.Glob(pat)
	if err != nil {
		return "err"
	}
	var hs []string
	for _, p := range paths {
		hs = append(hs, hx(strings.ReplaceAll(p, dir, "/R")))
	}
	// intrinsic observation: every returned path exists
	for _, p := range paths {
		if _, err := os.Lstat(p); err != nil {
			return "ok:" + strings.Join(hs, ",") + " MISSING=" + hx(p)
		}
	}
	return "ok:" + strings.Join(hs, ",")
}
