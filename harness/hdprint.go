package main

import (
	"bytes"
	"strconv"
	"strings"

	"github.com/hattya/go.sh/ast"
	"github.com/hattya/go.sh/printer"
)

func init() { handlers["hdprint"] = hdprintH }

// case: src(hex) \t config index
// out : ok <ops>/<events>|...   one pair per printed command; ids number the here-documents in order of announcement
//       ops: P push, Q pop, R<id> redir, N newline, B<id> body, E end of newline, S suspend, T resume     events: a<id> n b<id> s t
func hdprintH(line string) string {
	f := strings.Split(line, "\t")
	cfgi, _ := strconv.Atoi(f[1])
	cmds, _, err := parseAll(unhex(f[0]))
	if err != nil {
		return "skip:" + fmtErr(err)
	}
	cfg := config(cfgi)
	var out []string
	for _, c := range cmds {
		ids := map[*ast.Redir]int{}
		id := func(r *ast.Redir) string {
			if _, ok := ids[r]; !ok {
				ids[r] = len(ids) + 1
			}
			return strconv.Itoa(ids[r])
		}
		// the raw log of hook calls; operations and events are derived from it below
		var log []string
		printer.VerifHook = func(op string, r *ast.Redir) {
			if r != nil {
				op += " " + id(r)
			}
			log = append(log, op)
		}
		var b bytes.Buffer
		err := cfg.Fprint(&b, c)
		printer.VerifHook = nil
		if err != nil {
			return "FAIL:print-error"
		}
		var ops, evs []string
		for k := 0; k < len(log); k++ {
			f := strings.Split(log[k], " ")
			next := ""
			if k+1 < len(log) {
				next = strings.Split(log[k+1], " ")[0]
			}
			switch f[0] {
			case "push":
				ops = append(ops, "P")
			case "pop":
				ops = append(ops, "Q")
			case "popnl":
				// heredoc() calls newline() before each of its bodies: that call is part of the pop
				if next == "newline" {
					k++
				}
			case "redir":
				ops = append(ops, "R"+f[1])
				evs = append(evs, "a"+f[1])
			case "newline":
				ops = append(ops, "N")
			case "suspend":
				ops = append(ops, "S")
				evs = append(evs, "s")
			case "resume":
				ops = append(ops, "T")
				evs = append(evs, "t")
			case "nl":
				evs = append(evs, "n")
				if next != "body" {
					ops = append(ops, "E")
				}
			case "body":
				ops = append(ops, "B"+f[1])
				evs = append(evs, "b"+f[1])
			}
		}
		out = append(out, strings.Join(ops, ",")+"/"+strings.Join(evs, ","))
	}
	return "ok " + strings.Join(out, "|")
}
