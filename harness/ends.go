package main

import (
	"fmt"
	"reflect"
	"strings"

	"github.com/hattya/go.sh/ast"
)

func init() { handlers["ends"] = endsH }

// case: src(hex).  Every word of the parsed commands, written out with the positions stored in its parts and the
// End() every part and the word itself report; the model of the End() methods (coq/theories/Ast/Ends.v) recomputes
// them from the stored positions.
func endsH(line string) string {
	src := unhex(strings.Split(line, "\t")[0])
	cmds, _, err := parseAll(src)
	if err != nil {
		return "skip:" + fmtErr(err)
	}
	var b strings.Builder
	n := 0
	visit(reflect.ValueOf(cmds), func(ast.Node) {}, func(w ast.Word) {
		if len(w) == 0 {
			return
		}
		b.WriteString("W [ ")
		serParts(&b, w)
		e := w.End()
		fmt.Fprintf(&b, "] = %d %d ", e.Line(), e.Col())
		n++
	}, 0)
	return fmt.Sprintf("ok %d %s", n, b.String())
}

func hxe(s string) string {
	if s == "" {
		return "-"
	}
	return hx(s)
}

func b01(b bool) int {
	if b {
		return 1
	}
	return 0
}

func serParts(b *strings.Builder, w ast.Word) {
	for _, p := range w {
		switch x := p.(type) {
		case *ast.Lit:
			fmt.Fprintf(b, "L %d %d %s ", x.ValuePos.Line(), x.ValuePos.Col(), hxe(x.Value))
		case *ast.Quote:
			fmt.Fprintf(b, "Q %d %d %s [ ", x.TokPos.Line(), x.TokPos.Col(), hxe(x.Tok))
			serParts(b, x.Value)
			b.WriteString("] ")
		case *ast.ParamExp:
			if x.Name == nil {
				b.WriteString("X ")
				break
			}
			fmt.Fprintf(b, "P %d %d %d %d %d %s %d %d %s [ ", x.Dollar.Line(), x.Dollar.Col(), b01(x.Braces),
				x.Name.ValuePos.Line(), x.Name.ValuePos.Col(), hxe(x.Name.Value), x.OpPos.Line(), x.OpPos.Col(), hxe(x.Op))
			serParts(b, x.Word)
			b.WriteString("] ")
		case *ast.CmdSubst:
			fmt.Fprintf(b, "C %d %d %d %d %d ", b01(x.Dollar), x.Left.Line(), x.Left.Col(), x.Right.Line(), x.Right.Col())
		case *ast.ArithExp:
			fmt.Fprintf(b, "A %d %d %d %d ", x.Left.Line(), x.Left.Col(), x.Right.Line(), x.Right.Col())
		default:
			b.WriteString("X ")
		}
		e := p.End()
		fmt.Fprintf(b, "= %d %d ", e.Line(), e.Col())
	}
}
